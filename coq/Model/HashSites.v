(** Catalogue of the hashed collections of norad (C10 anchor, DESIGN.md section 4.1).
    One entry per site of the inventory that lib/anchors_c10.py regenerates from /repo/src on
    every run: "file|enclosing fn|type or iter|normalised statement", paired with the argument
    that discharges it:
      a theorem of Props/C10.v  - the site's influence on a result is covered by that theorem;
      "decl"     - an import, a field, a parameter or a constructor of a collection whose uses are
                   the other sites of the same file (no behaviour of its own);
      "exposed"  - a public iterator over the store's HashMap handed to the caller (Store::iter,
                   Store::keys); inside norad it is consumed only at the font.rs sites below.
    AnchorsOK_C10.v proves that the regenerated inventory equals [map fst catalogue] and that
    every argument is known.  A new HashMap/HashSet, or a new iteration over one, changes the
    inventory and breaks the anchor until it is catalogued with an argument. *)
From Coq Require Import String List.
Import ListNotations.
Open Scope string_scope.

Definition catalogue : list (string * string) := [
  ("datastore.rs|-|type|cell::RefCell, collections::HashMap, path::",
   "decl");
  ("datastore.rs|-|type|items: HashMap<PathBuf, RefCell<Item>>, ufo_root: PathBuf, impl_type: T,",
   "decl");
  ("datastore.rs|eq|iter|self.items.len() == other.items.len() && self.items.keys().all(|key| other.items.contains_key(key))",
   "C10_all_any_order_independent");
  ("datastore.rs|iter|iter|self.items.keys().map(move |k| (k, self.get(k).unwrap()))",
   "exposed");
  ("datastore.rs|keys|iter|self.items.keys()",
   "exposed");
  ("datastore.rs|load_item|type|fn load_item( impl_type: &T, ufo_root: &Path, path: &Path, items: &HashMap<PathBuf, RefCell<Item>>, ) -> Item",
   "decl");
  ("datastore.rs|new|iter|let items = dir_contents.into_iter().map(|path| (path, RefCell::new(Item::default()))).collect()",
   "C10_membership_only");
  ("datastore.rs|validate_entry|iter|if items.keys().any(|key| key != path && key.starts_with(path))",
   "C10_all_any_order_independent");
  ("datastore.rs|validate_entry|type|fn validate_entry( &self, path: &Path, _items: &HashMap<PathBuf, RefCell<Item>>, data: &[u8], ) -> Result<(), StoreError>",
   "decl");
  ("datastore.rs|validate_entry|type|fn validate_entry( &self, path: &Path, items: &HashMap<PathBuf, RefCell<Item>>, _data: &[u8], ) -> Result<(), StoreError>",
   "decl");
  ("datastore.rs|validate_entry|type|fn validate_entry( &self, path: &Path, items: &HashMap<PathBuf, RefCell<Item>>, data: &[u8], ) -> Result<(), StoreError>",
   "decl");
  ("font.rs|save_impl|iter|for (data_path, contents) in self.data.iter()",
   "C10_store_write_commutes");
  ("font.rs|save_impl|iter|for (image_path, contents) in self.images.iter()",
   "C10_store_write_commutes");
  ("font.rs|save_impl|iter|for (path, entry) in self.data.iter().chain(self.images.iter())",
   "C10_all_any_order_independent");
  ("fontinfo.rs|-|type|collections::HashSet, convert::TryFrom, ops::Deref",
   "decl");
  ("fontinfo.rs|validate|type|let mut identifiers: HashSet<Identifier> = HashSet::new()",
   "C10_membership_only");
  ("glyph/parse.rs|-|type|glyph: Glyph, version: Version, seen_identifiers: HashSet<Identifier>, names: Option<&'names NameList>,",
   "C10_membership_only");
  ("glyph/parse.rs|-|type|use std::collections::HashSet",
   "decl");
  ("groups.rs|-|type|BTreeMap, HashSet",
   "decl");
  ("groups.rs|validate_groups|type|let mut kern1_set = HashSet::new()",
   "C10_validate_membership_only");
  ("groups.rs|validate_groups|type|let mut kern2_set = HashSet::new()",
   "C10_validate_membership_only");
  ("layer.rs|-|type|BTreeMap, HashSet",
   "decl");
  ("layer.rs|-|type|layers: Vec<Layer>, path_set: HashSet<String>,",
   "C10_membership_only");
  ("layer.rs|-|type|pub(crate) glyphs: BTreeMap<Name, Glyph>, pub(crate) name: Name, pub(crate) path: PathBuf, contents: BTreeMap<Name, PathBuf>, path_set: HashSet<String>, pub color: Option<Color>, pub lib: Plist,",
   "C10_membership_only");
  ("layer.rs|default|type|layers, path_set: HashSet::new()",
   "C10_membership_only");
  ("layer.rs|load_impl|iter|let path_set = contents.values().map(|p| p.to_string_lossy().to_lowercase()).collect()",
   "C10_membership_only");
  ("layer.rs|load|iter|let path_set = layers.iter().skip(1).map(|l| l.path.to_string_lossy().to_lowercase()).collect()",
   "C10_membership_only");
  ("layer.rs|new|type|glyphs: BTreeMap::new(), name, path, contents: BTreeMap::new(), path_set: HashSet::new(), color: None, lib: Default::default(),",
   "C10_membership_only");
  ("names.rs|-|type|#[derive(Debug)] #[cfg(feature = '')] struct ParNameList(RwLock<HashSet<Name>>)",
   "C10_upconvert_glyphset_membership_only");
  ("names.rs|-|type|#[derive(Debug, Default)] #[cfg(not(feature = ''))] struct SeqNameList(RefCell<HashSet<Name>>)",
   "C10_upconvert_glyphset_membership_only");
  ("names.rs|-|type|use std::collections::HashSet",
   "decl");
  ("names.rs|default|type|ParNameList(RwLock::new(HashSet::new()))",
   "C10_upconvert_glyphset_membership_only");
  ("upconversion.rs|-|type|BTreeMap, BTreeSet, HashMap",
   "decl");
  ("upconversion.rs|upconvert_kerning|type|let mut groups_first_old_to_new: HashMap<Name, Name> = HashMap::new()",
   "C10_upconvert_order_independent");
  ("upconversion.rs|upconvert_kerning|type|let mut groups_second_old_to_new: HashMap<Name, Name> = HashMap::new()",
   "C10_upconvert_order_independent");
  ("util.rs|-|type|collections::HashSet, path::PathBuf",
   "decl");
  ("util.rs|default_file_name_for_glyph_name|type|pub(crate) fn default_file_name_for_glyph_name(name: &Name, existing: &HashSet<String>) -> PathBuf",
   "C10_membership_only");
  ("util.rs|default_file_name_for_layer_name|type|pub(crate) fn default_file_name_for_layer_name(name: &Name, existing: &HashSet<String>) -> PathBuf",
   "C10_membership_only")
].
