(** Order of the store writes of Font::save_impl (C10): the data and image stores are
    [HashMap]s, the files are written in iteration order
    ([for (data_path, contents) in self.data.iter() { create_dir_all(parent); write }],
    src/font.rs).  The order is an explicit argument here: the list of entries.
    Definitions only; proofs in Proofs/StoreWriteP.v. *)
Require Export Norad.Model.Base Norad.Model.Groups.
From Coq Require Export Permutation.
Open Scope N_scope.

Definition path := list name.               (* components below the store's directory *)
Definition bytes := list N.
Definition path_eqb (a b : path) : bool := list_eqb str_eqb a b.

(** the part of the file system below the store's directory: directories made so far, files
    written so far (latest first) *)
Definition fs := (list path * list (path * bytes))%type.

Fixpoint flookup (p : path) (fl : list (path * bytes)) : option bytes :=
  match fl with
  | [] => None
  | (q, d) :: r => if path_eqb p q then Some d else flookup p r
  end.
Definition is_file (p : path) (s : fs) : bool :=
  match flookup p (snd s) with Some _ => true | None => false end.
Definition is_dir (p : path) (s : fs) : bool := existsb (path_eqb p) (fst s).

(** the proper, non-empty prefixes of [p]: what create_dir_all(parent of p) creates *)
Fixpoint parents_aux (acc p : path) : list path :=
  match p with
  | [] => []
  | c :: r => match r with
              | [] => []
              | _ => (acc ++ [c]) :: parents_aux (acc ++ [c]) r
              end
  end.
Definition parents (p : path) : list path := parents_aux [] p.

(** one iteration of the loop; [None] = the save fails (an ancestor is a file, or the
    destination is a directory) *)
Definition write_entry (s : fs) (e : path * bytes) : option fs :=
  if existsb (fun a => is_file a s) (parents (fst e)) || is_dir (fst e) s then None
  else Some (parents (fst e) ++ fst s, (fst e, snd e) :: snd s).
Definition step (st : option fs) (e : path * bytes) : option fs :=
  match st with Some s => write_entry s e | None => None end.
(** the loop, for one iteration order [l] of the store *)
Definition write_all (l : list (path * bytes)) (s : fs) : option fs := fold_left step l (Some s).

(** same tree: same directories, same files with the same content *)
Definition fs_equiv (a b : fs) : Prop :=
  (forall p, is_dir p a = is_dir p b) /\ (forall p, flookup p (snd a) = flookup p (snd b)).
Definition orel (a b : option fs) : Prop :=
  match a, b with
  | Some x, Some y => fs_equiv x y
  | None, None => True
  | _, _ => False
  end.

Fixpoint is_prefix (a b : path) : bool :=
  match a, b with
  | [], _ => true
  | x :: a', y :: b' => str_eqb x y && is_prefix a' b'
  | _ :: _, [] => false
  end.
(** what the stores guarantee about their keys (c2a517e, 2c07570): pairwise distinct and no key
    is an ancestor of another *)
Definition independent (e1 e2 : path * bytes) : Prop :=
  is_prefix (fst e1) (fst e2) = false /\ is_prefix (fst e2) (fst e1) = false.
Definition prefix_free (l : list (path * bytes)) : Prop := ForallOrdPairs independent l.

(** a set that is only ever queried ([contains]) and extended ([insert]): any two
    representations with the same members are indistinguishable *)
Definition same_members (s s' : list name) : Prop := forall x, In x s <-> In x s'.
