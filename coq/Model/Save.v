(** Model of [Font::save_impl] (src/font.rs) and [Layer::save_with_options] (src/layer.rs) over
    the abstract file system of Fs.v.  Definitions only (proofs: Proofs/SaveP.v).

    A font is abstracted to what decides WHICH paths are touched, in WHAT ORDER, and whether the
    save is refused: format version, presence of a user-supplied public.objectLibs key, the
    verdicts of the two validators, the state of every store cell, emptiness of every optional
    part, layer directories and glif file names (as path component lists, exactly as they are
    joined onto the target), and an opaque content token per written file.

    [save] is the interpretation of the step list [save_steps]; that list is compared with the
    effect-order skeleton regenerated from the Rust source on every run (Anchors/AnchorsOK_C08.v). *)
From stdpp Require Import gmap strings.
From Norad.Model Require Import Fs.
Open Scope string_scope.
Open Scope list_scope.

(** * Relative paths as Rust's [Path::components] sees them *)
Inductive comp := Normal (s : string) | ParentDir | CurDir | RootDir.
Notation rel := (list comp).
Global Instance comp_eq_dec : EqDecision comp.
Proof. solve_decision. Defined.

(** * File content: an opaque token plus the one bit of structure the stores look at *)
Record content := Content { c_tok : N; c_png : bool }.
Global Instance content_eq_dec : EqDecision content.
Proof. solve_decision. Defined.
Notation sfs := (fs content).
Notation snode := (node content).

(** [base.join(r)] handed to the operating system: every component but the last must lead to an
    existing directory; [..] goes to the parent, a root component restarts at the root
    ([Path::join] with an absolute path replaces the base).  [None] = ENOENT / ENOTDIR. *)
Fixpoint walk (m : sfs) (cur : path) (r : rel) : option path :=
  match r with
  | [] => Some cur
  | c :: r' =>
      let next := match c with
                  | Normal s => cur ++ [s]
                  | ParentDir => removelast cur
                  | CurDir => cur
                  | RootDir => []
                  end in
      match r' with
      | [] => Some next
      | _ => if is_dir m next then walk m next r' else None
      end
  end.

(** * Stores ([Store<T>], src/datastore.rs) *)
Inductive cell := NotLoaded | Loaded (c : content) | Error.
Record store := Store { st_root : path; st_cells : list (list string * cell) }.

(** [Store::get] on a cell: a cell that is not loaded reads [root/dir/key]; images also need the
    PNG signature.  The keys of a store are plain component lists (insert rejects everything
    else, listing a directory yields nothing else). *)
Definition force_cell (png : bool) (dir : string) (m : sfs) (root : path)
    (kc : list string * cell) : list string * cell :=
  match kc.2 with
  | NotLoaded =>
      match read m (root ++ dir :: kc.1) with
      | Some c => if negb png || c_png c then (kc.1, Loaded c) else (kc.1, Error)
      | None => (kc.1, Error)
      end
  | _ => kc
  end.
Definition force_store (png : bool) (dir : string) (m : sfs) (s : store) : store :=
  Store (st_root s) (map (force_cell png dir m (st_root s)) (st_cells s)).
Definition cell_ok (kc : list string * cell) : bool :=
  match kc.2 with Loaded _ => true | _ => false end.
Definition store_ok (s : store) : bool := forallb cell_ok (st_cells s).

(** [Store::new]: list the directory; the image store refuses sub-directories. *)
Definition open_store (flat : bool) (dir : string) (m : sfs) (root : path) : option store :=
  if negb (is_dir m (root ++ [dir])) then None
  else if flat && has_subdir (root ++ [dir]) m then None
  else Some (Store root (map (λ k, (k, NotLoaded)) (files_below (root ++ [dir]) m))).

(** * The abstract font *)
Record glif_abs := MkGlif { g_path : rel; g_body : option content; g_enc : bool }.
  (* [g_body = None]: Glyph::save_with_options fails before creating the file - the glyph's lib
     holds public.objectLibs ([g_enc = false]), or encoding the glyph fails ([g_enc = true]: a
     plist value the XML writer refuses, e.g. a Uid, somewhere in the glyph's lib) *)
Definition Glif (p : rel) (b : option content) : glif_abs := MkGlif p b false.
Definition GlifEnc (p : rel) : glif_abs := MkGlif p None true.
Record layer_abs := Layer {
  la_name : string;
  la_dir : rel;
  la_contents : content;           (* contents.plist *)
  la_info : option content;        (* layerinfo.plist; None = no colour and empty lib *)
  la_glifs : list glif_abs;        (* in the order of the contents map *)
}.
Record font_abs := Font {
  fa_version : N;                  (* meta.format_version: 1, 2, 3 *)
  fa_objlibs_key : bool;           (* lib contains public.objectLibs *)
  fa_groups_ok : bool;             (* validate_groups *)
  fa_info_valid : bool;            (* FontInfo::validate *)
  fa_meta : content;               (* metainfo.plist, always written *)
  fa_info : option content;        (* None = font_info.is_empty() *)
  fa_lib : option content;         (* None = lib plus dumped object libs is empty *)
  fa_groups : option content;
  fa_kerning : option content;
  fa_features : option content;
  fa_layercontents : content;
  fa_layers : list layer_abs;
  fa_data : store;
  fa_images : store;
}.
Definition set_stores (f : font_abs) (d i : store) : font_abs :=
  Font (fa_version f) (fa_objlibs_key f) (fa_groups_ok f) (fa_info_valid f) (fa_meta f) (fa_info f)
       (fa_lib f) (fa_groups f) (fa_kerning f) (fa_features f) (fa_layercontents f) (fa_layers f) d i.

(** * Errors ([FontWriteError], [LayerWriteError] variants) *)
Inductive topfile := FMeta | FInfo | FLib | FGroups | FKerning | FFeatures | FLayerContents.
Inductive layer_err := LCreateDir | LContents | LLayerInfo | LGlyphObjLibs | LGlyphEncode | LGlyphIo.
Inductive werr :=
| Downgrade | PreexistingObjLibs | InvalidGroups | InvalidFontInfo | InvalidStoreEntry
| Cleanup | CreateUfoDir | CustomFile (f : topfile) | FeatureFile
| LayerErr (name : string) (e : layer_err)
| CreateStoreDir | DataErr | ImageErr
| StorePanic.   (* [expect("internal error: should have been checked")] *)
Inductive outcome := Saved | Failed (e : werr).

(** * The five refusal kinds of the property *)
Inductive refusal := RVersion | RObjLibs | RGroups | RInfo | RStore.
Definition err_of (k : refusal) : werr :=
  match k with
  | RVersion => Downgrade | RObjLibs => PreexistingObjLibs | RGroups => InvalidGroups
  | RInfo => InvalidFontInfo | RStore => InvalidStoreEntry
  end.
Definition has_error_cell (s : store) : bool :=
  existsb (λ kc, match kc.2 with Error => true | _ => false end) (st_cells s).
(** does the font, by itself, trigger refusal [k]?  (for [RStore]: a cell already in error; a
    cell that is not loaded yet may still fail when forced, which depends on the file system) *)
Definition refuses (k : refusal) (f : font_abs) : bool :=
  match k with
  | RVersion => negb (N.eqb (fa_version f) 3)
  | RObjLibs => fa_objlibs_key f
  | RGroups => negb (fa_groups_ok f)
  | RInfo => negb (fa_info_valid f)
  | RStore => has_error_cell (fa_data f) || has_error_cell (fa_images f)
  end.
Definition refusal_kind (f : font_abs) : option refusal :=
  if refuses RVersion f then Some RVersion
  else if refuses RObjLibs f then Some RObjLibs
  else if refuses RGroups f then Some RGroups
  else if refuses RInfo f then Some RInfo
  else if refuses RStore f then Some RStore
  else None.

(** * Programs: sequences of fallible file-system actions *)
Definition action := sfs → option sfs.
Definition prog := list (werr * action).
Fixpoint run_prog (pr : prog) (m : sfs) : outcome * sfs :=
  match pr with
  | [] => (Saved, m)
  | (e, a) :: r => match a m with Some m' => run_prog r m' | None => (Failed e, m) end
  end.

Definition at_rel (t : path) (r : rel) (k : path → action) : action :=
  λ m, match walk m t r with Some p => k p m | None => None end.
Definition fail_act : action := λ _, None.

(** * The steps, in the order of the source *)
Inductive sstep :=
| SRefuse (k : refusal)   (* SRefuse RStore = the loop that forces every store cell *)
| SWipe                    (* if path.exists() { remove_dir_all(path) } *)
| SCreate                  (* create_dir(path) *)
| SFile (f : topfile)
| SLayers
| SData
| SImages.
Definition save_steps : list sstep :=
  [SRefuse RVersion; SRefuse RObjLibs; SRefuse RGroups; SRefuse RInfo; SRefuse RStore;
   SWipe; SCreate;
   SFile FMeta; SFile FInfo; SFile FLib; SFile FGroups; SFile FKerning; SFile FFeatures;
   SFile FLayerContents; SLayers; SData; SImages].

Inductive lstep := LSCreateDir | LSContents | LSLayerInfo | LSGlifs.
Definition layer_steps : list lstep := [LSCreateDir; LSContents; LSLayerInfo; LSGlifs].

Definition topfile_name (f : topfile) : string :=
  match f with
  | FMeta => "metainfo.plist" | FInfo => "fontinfo.plist" | FLib => "lib.plist"
  | FGroups => "groups.plist" | FKerning => "kerning.plist" | FFeatures => "features.fea"
  | FLayerContents => "layercontents.plist"
  end.
Definition topfile_content (fo : font_abs) (f : topfile) : option content :=
  match f with
  | FMeta => Some (fa_meta fo) | FInfo => fa_info fo | FLib => fa_lib fo
  | FGroups => fa_groups fo | FKerning => fa_kerning fo | FFeatures => fa_features fo
  | FLayerContents => Some (fa_layercontents fo)
  end.
Definition topfile_err (f : topfile) : werr :=
  match f with FFeatures => FeatureFile | _ => CustomFile f end.

Definition CONTENTS_FILE := "contents.plist".
Definition LAYER_INFO_FILE := "layerinfo.plist".
Definition DATA_DIR := "data".
Definition IMAGES_DIR := "images".

Definition glif_prog (t : path) (l : layer_abs) (g : glif_abs) : prog :=
  match g_body g with
  | None => [(LayerErr (la_name l) (if g_enc g then LGlyphEncode else LGlyphObjLibs), fail_act)]
  | Some c => [(LayerErr (la_name l) LGlyphIo, at_rel t (la_dir l ++ g_path g) (λ p, write p c))]
  end.
Definition lstep_prog (t : path) (l : layer_abs) (s : lstep) : prog :=
  match s with
  | LSCreateDir => [(LayerErr (la_name l) LCreateDir, at_rel t (la_dir l) create_dir)]
  | LSContents =>
      [(LayerErr (la_name l) LContents,
        at_rel t (la_dir l ++ [Normal CONTENTS_FILE]) (λ p, write p (la_contents l)))]
  | LSLayerInfo =>
      match la_info l with
      | None => []
      | Some c => [(LayerErr (la_name l) LLayerInfo,
                    at_rel t (la_dir l ++ [Normal LAYER_INFO_FILE]) (λ p, write p c))]
      end
  | LSGlifs => concat (map (glif_prog t l) (la_glifs l))
  end.
Definition layer_prog (t : path) (l : layer_abs) : prog :=
  concat (map (lstep_prog t l) layer_steps).

Definition data_cell_prog (t : path) (kc : list string * cell) : prog :=
  match kc.2 with
  | Loaded c =>
      [(CreateStoreDir, create_dir_all t (DATA_DIR :: removelast kc.1));
       (DataErr, write (t ++ DATA_DIR :: kc.1) c)]
  | _ => [(StorePanic, fail_act)]
  end.
Definition image_cell_prog (t : path) (kc : list string * cell) : prog :=
  match kc.2 with
  | Loaded c => [(ImageErr, write (t ++ IMAGES_DIR :: kc.1) c)]
  | _ => [(StorePanic, fail_act)]
  end.

Definition wipe_act (t : path) : action :=
  λ m, if exists_ m t then remove_dir_all t m else Some m.

(** the file-system program of a step that is not a check *)
Definition step_prog (t : path) (f : font_abs) (s : sstep) : prog :=
  match s with
  | SRefuse _ => []
  | SWipe => [(Cleanup, wipe_act t)]
  | SCreate => [(CreateUfoDir, create_dir t)]
  | SFile tf =>
      match topfile_content f tf with
      | None => []
      | Some c => [(topfile_err tf, write (t ++ [topfile_name tf]) c)]
      end
  | SLayers => concat (map (layer_prog t) (fa_layers f))
  | SData => concat (map (data_cell_prog t) (st_cells (fa_data f)))
  | SImages =>
      match st_cells (fa_images f) with
      | [] => []
      | cells => (CreateStoreDir, create_dir (t ++ [IMAGES_DIR])) :: concat (map (image_cell_prog t) cells)
      end
  end.

(** forcing both stores ([self.data.iter().chain(self.images.iter())]): [None] if a cell ends
    up in the error state *)
Definition force_stores (m : sfs) (f : font_abs) : option font_abs :=
  let d := force_store false DATA_DIR m (fa_data f) in
  let i := force_store true IMAGES_DIR m (fa_images f) in
  if store_ok d && store_ok i then Some (set_stores f d i) else None.

Fixpoint run_steps (ss : list sstep) (t : path) (f : font_abs) (m : sfs) : outcome * sfs :=
  match ss with
  | [] => (Saved, m)
  | SRefuse RStore :: r =>
      match force_stores m f with
      | Some f' => run_steps r t f' m
      | None => (Failed InvalidStoreEntry, m)
      end
  | SRefuse k :: r => if refuses k f then (Failed (err_of k), m) else run_steps r t f m
  | s :: r =>
      match run_prog (step_prog t f s) m with
      | (Saved, m') => run_steps r t f m'
      | (Failed e, m') => (Failed e, m')
      end
  end.

(** [Font::save(path)] *)
Definition save (f : font_abs) (t : path) (m : sfs) : outcome * sfs := run_steps save_steps t f m.

(** the font after [save] returned: when the four validators passed, the loop over the stores
    has run, so every cell that was not loaded is now loaded or in error - whether the save then
    succeeded or was refused (the cell states are threaded through a history of saves) *)
Definition font_after (f : font_abs) (m : sfs) : font_abs :=
  if refuses RVersion f || refuses RObjLibs f || refuses RGroups f || refuses RInfo f then f
  else set_stores f (force_store false DATA_DIR m (fa_data f)) (force_store true IMAGES_DIR m (fa_images f)).

(** * Specification side *)

(** layer directories and glif file names are single plain components; store keys non-empty *)
Definition single_normal (r : rel) : Prop := ∃ s, r = [Normal s].
Definition layer_safe (l : layer_abs) : Prop :=
  single_normal (la_dir l) ∧ Forall (λ g, single_normal (g_path g)) (la_glifs l).
Definition store_keys_ok (s : store) : Prop := Forall (λ kc, kc.1 ≠ []) (st_cells s).
Definition paths_safe (f : font_abs) : Prop :=
  Forall layer_safe (fa_layers f) ∧ store_keys_ok (fa_data f) ∧ store_keys_ok (fa_images f).

Definition layers_safe (f : font_abs) : Prop := Forall layer_safe (fa_layers f).
Definition single_normalb (r : rel) : bool := match r with [Normal _] => true | _ => false end.
Definition layer_safeb (l : layer_abs) : bool :=
  single_normalb (la_dir l) && forallb (λ g, single_normalb (g_path g)) (la_glifs l).
Definition layers_safeb (f : font_abs) : bool := forallb layer_safeb (fa_layers f).

(** the tree a font determines, relative to the target: the entries in writing order *)
Definition rel_name (r : rel) : string := match r with [Normal s] => s | _ => "" end.
Definition glif_entries (d : string) (g : glif_abs) : list (path * snode) :=
  match g_body g with Some c => [([d; rel_name (g_path g)], File c)] | None => [] end.
Definition layer_entries (l : layer_abs) : list (path * snode) :=
  let d := rel_name (la_dir l) in
  ([d], Dir) :: ([d; CONTENTS_FILE], File (la_contents l))
  :: match la_info l with Some c => [([d; LAYER_INFO_FILE], File c)] | None => [] end
  ++ concat (map (glif_entries d) (la_glifs l)).
Definition data_entries (kc : list string * cell) : list (path * snode) :=
  match kc.2 with
  | Loaded c => dir_chain [] (DATA_DIR :: removelast kc.1) ++ [(DATA_DIR :: kc.1, File c)]
  | _ => []
  end.
Definition image_entries (kc : list string * cell) : list (path * snode) :=
  match kc.2 with Loaded c => [(IMAGES_DIR :: kc.1, File c)] | _ => [] end.
Definition topfile_entries (f : font_abs) (tf : topfile) : list (path * snode) :=
  match topfile_content f tf with Some c => [([topfile_name tf], File c)] | None => [] end.
Definition entries (f : font_abs) : list (path * snode) :=
  ([], Dir)
  :: concat (map (topfile_entries f) [FMeta; FInfo; FLib; FGroups; FKerning; FFeatures; FLayerContents])
  ++ concat (map layer_entries (fa_layers f))
  ++ concat (map data_entries (st_cells (fa_data f)))
  ++ match st_cells (fa_images f) with
     | [] => []
     | cells => ([IMAGES_DIR], Dir) :: concat (map image_entries cells)
     end.
Definition tree_of (f : font_abs) : sfs := apply_entries (entries f) ∅.

(** reserved names: a layer directory or glif file with one of these names collides with a file
    the font writes itself *)
Definition top_reserved : list string :=
  [DATA_DIR; IMAGES_DIR] ++ map topfile_name [FMeta; FInfo; FLib; FGroups; FKerning; FFeatures; FLayerContents].
Definition layer_reserved : list string := [CONTENTS_FILE; LAYER_INFO_FILE].
Definition layer_unreserved (l : layer_abs) : Prop :=
  rel_name (la_dir l) ∉ top_reserved ∧
  Forall (λ g, rel_name (g_path g) ∉ layer_reserved) (la_glifs l).
Definition names_unreserved (f : font_abs) : Prop :=
  Forall layer_unreserved (fa_layers f) ∧
  NoDup (map (λ l, rel_name (la_dir l)) (fa_layers f)).

(** a store as it comes out of a load, after any number of accesses: every cell is either still
    not loaded or holds what [get] produced against the file system [m] *)
Definition store_evolved (png : bool) (dir : string) (m : sfs) (s0 s : store) : Prop :=
  st_root s = st_root s0 ∧
  Forall2 (λ kc0 kc, kc = kc0 ∨ kc = force_cell png dir m (st_root s0) kc0) (st_cells s0) (st_cells s).

(** * The effect-order skeleton of the model, compared with the one regenerated from the Rust
      source (lib/anchors_save.py, Anchors/AnchorsOK_C08.v).  One (kind, name) pair per check,
      guard, file-system call and error variant, in source order. *)
Definition werr_name (e : werr) : string :=
  match e with
  | Downgrade => "Downgrade" | PreexistingObjLibs => "PreexistingPublicObjectLibsKey"
  | InvalidGroups => "InvalidGroups" | InvalidFontInfo => "InvalidFontInfo"
  | InvalidStoreEntry => "InvalidStoreEntry" | Cleanup => "Cleanup" | CreateUfoDir => "CreateUfoDir"
  | CustomFile _ => "CustomFile" | FeatureFile => "FeatureFile" | LayerErr _ _ => "Layer"
  | CreateStoreDir => "CreateStoreDir" | DataErr => "Data" | ImageErr => "Image"
  | StorePanic => "expect"
  end.
Definition layer_err_name (e : layer_err) : string :=
  match e with
  | LCreateDir => "CreateDir" | LContents => "Contents" | LLayerInfo => "LayerInfo"
  | LGlyphObjLibs => "PreexistingPublicObjectLibsKey" | LGlyphEncode => "Plist" | LGlyphIo => "Io"
  end.
Definition check_name (k : refusal) : string * string :=
  match k with
  | RVersion => ("check", "format_version") | RObjLibs => ("check", "public.objectLibs")
  | RGroups => ("check", "validate_groups") | RInfo => ("check", "font_info.validate")
  | RStore => ("force", "data+images")
  end.
Definition guard_name (tf : topfile) : string :=
  match tf with
  | FInfo => "!self.font_info.is_empty()" | FLib => "!lib.is_empty()" | FGroups => "!self.groups.is_empty()"
  | FKerning => "!self.kerning.is_empty()" | FFeatures => "!self.features.is_empty()" | _ => ""
  end.
Definition skel_step (s : sstep) : list (string * string) :=
  match s with
  | SRefuse k => [check_name k; ("err", werr_name (err_of k))]
  | SWipe => [("guard", "path.exists()"); ("exists", ""); ("remove_dir_all", ""); ("err", werr_name Cleanup)]
  | SCreate => [("create_dir", ""); ("err", werr_name CreateUfoDir)]
  | SFile FMeta =>   (* the two arms of the creator test write the same file *)
      [("write_xml", topfile_name FMeta); ("err", werr_name (topfile_err FMeta));
       ("write_xml", topfile_name FMeta); ("err", werr_name (topfile_err FMeta))]
  | SFile FLayerContents =>
      [("write_xml", topfile_name FLayerContents); ("err", werr_name (topfile_err FLayerContents))]
  | SFile FFeatures =>   (* the two arms of the carriage-return test *)
      [("guard", guard_name FFeatures);
       ("write", topfile_name FFeatures); ("err", werr_name (topfile_err FFeatures));
       ("write", topfile_name FFeatures); ("err", werr_name (topfile_err FFeatures))]
  | SFile tf => [("guard", guard_name tf); ("write_xml", topfile_name tf); ("err", werr_name (topfile_err tf))]
  | SLayers => [("layer", "save_with_options"); ("err", werr_name (LayerErr "" LCreateDir))]
  | SData =>
      [("guard", "!self.data.is_empty()"); ("create_dir_all", DATA_DIR +:+ "/<data_path>/.."); ("err", werr_name CreateStoreDir);
       ("write", DATA_DIR +:+ "/<data_path>"); ("err", werr_name DataErr)]
  | SImages =>
      [("guard", "!self.images.is_empty()"); ("create_dir", IMAGES_DIR); ("err", werr_name CreateStoreDir);
       ("write", IMAGES_DIR +:+ "/<image_path>"); ("err", werr_name ImageErr)]
  end.
Definition save_skeleton : list (string * string) := concat (map skel_step save_steps).
Definition skel_lstep (s : lstep) : list (string * string) :=
  match s with
  | LSCreateDir => [("create_dir", ""); ("err", layer_err_name LCreateDir)]
  | LSContents => [("write_xml", CONTENTS_FILE); ("err", layer_err_name LContents)]
  | LSLayerInfo => [("call", "layerinfo_to_file_if_needed")]
  | LSGlifs => [("glyph", "save_with_options"); ("err", "Glyph")]
  end.
Definition layer_skeleton : list (string * string) := concat (map skel_lstep layer_steps).
Definition layerinfo_skeleton : list (string * string) :=
  [("guard", "self.color.is_none() && self.lib.is_empty()"); ("write_xml", LAYER_INFO_FILE); ("err", layer_err_name LLayerInfo)].
Definition glyph_skeleton : list (string * string) :=
  [("check", "public.objectLibs"); ("err", layer_err_name LGlyphObjLibs);
   ("write", ""); ("err", layer_err_name LGlyphIo)].
