(** A small XML event-tree type for the designspace model (C18), with the two views of text that
    matter there: what quick-xml's serde deserializer hands to norad (text trimmed of XML white
    space at both ends) and what a conforming XML 1.0 reader finds in a file in which only
    the mark-up characters were escaped (attribute-value and line-end normalisation, forbidden characters).
    Strings are Coq [string]s = byte strings (Rust [String] = UTF-8 bytes). Definitions only. *)
From Coq Require Export String List Ascii Bool NArith ZArith.
Export ListNotations.
Open Scope string_scope.

(** An element with its attributes in document order and its children, or a run of character
    data (entities resolved).  White-space-only character data between elements is not part of
    the tree (neither quick-xml's deserializer nor the independent reader reports it). *)
Inductive node : Type :=
| Elem (name : string) (attrs : list (string * string)) (kids : list node)
| Text (s : string).

(** ** Bytes *)
Definition byte_is (n : N) (c : ascii) : bool := N.eqb (N_of_ascii c) n.
(** quick-xml [is_whitespace]: space, tab, LF, CR *)
Definition is_ws (c : ascii) : bool :=
  byte_is 32 c || byte_is 9 c || byte_is 10 c || byte_is 13 c.

Fixpoint trim_start (s : string) : string :=
  match s with
  | String c r => if is_ws c then trim_start r else s
  | EmptyString => EmptyString
  end.
Fixpoint trim_end (s : string) : string :=
  match s with
  | EmptyString => EmptyString
  | String c r => match trim_end r with
                  | EmptyString => if is_ws c then EmptyString else String c EmptyString
                  | r' => String c r'
                  end
  end.
(** the text of an element as the deserializer sees it *)
Definition trim (s : string) : string := trim_end (trim_start s).

Definition lead_ws (s : string) : bool :=
  match s with String c _ => is_ws c | EmptyString => false end.
Fixpoint trail_ws (s : string) : bool :=
  match s with
  | EmptyString => false
  | String c EmptyString => is_ws c
  | String _ r => trail_ws r
  end.
(** the string starts or ends with XML white space: exactly the strings [trim] changes *)
Definition edge_ws (s : string) : bool := lead_ws s || trail_ws s.

(** ** Text content of a leaf element *)
(** writer: an empty string gives an empty element *)
Definition text_kids (s : string) : list node :=
  match s with EmptyString => [] | _ => [Text s] end.
(** reader ([read_string]): no child → empty string, one text child → trimmed, anything else → error *)
Definition kids_text (kids : list node) : option string :=
  match kids with
  | [] => Some EmptyString
  | [Text s] => Some (trim s)
  | _ => None
  end.

(** ** Attribute lookup and child-element fields, as serde's derived visitors see them *)
Definition attr (k : string) (a : list (string * string)) : option string :=
  match find (fun p => String.eqb k (fst p)) a with
  | Some p => Some (snd p)
  | None => None
  end.

Definition is_named (k : string) (n : node) : bool :=
  match n with Elem k' _ _ => String.eqb k k' | Text _ => false end.
Definition not_named (k : string) (n : node) : bool := negb (is_named k n).

Fixpoint drop_while {A} (f : A -> bool) (l : list A) : list A :=
  match l with
  | x :: r => if f x then drop_while f r else l
  | [] => []
  end.
Fixpoint take_while {A} (f : A -> bool) (l : list A) : list A :=
  match l with
  | x :: r => if f x then x :: take_while f r else []
  | [] => []
  end.

(** A field that is a sequence of elements named [k]: quick-xml (without its
    [overlapped-lists] feature) takes one run of consecutive [k] elements; a second run makes the
    derived visitor fail with a duplicate-field error.  [None] = that error. *)
Definition field_list (k : string) (kids : list node) : option (list node) :=
  let rest := drop_while (not_named k) kids in
  let after := drop_while (is_named k) rest in
  if existsb (is_named k) after then None else Some (take_while (is_named k) rest).
(** A field that is one element named [k]: absent, present once, or the duplicate-field error. *)
Definition field_one (k : string) (kids : list node) : option (option node) :=
  match field_list k kids with
  | Some [] => Some None
  | Some [x] => Some (Some x)
  | _ => None
  end.

(** ** Booleans ([xs:boolean] as quick-xml reads it) *)
Definition parse_bool (s : string) : option bool :=
  if String.eqb s "true" || String.eqb s "1" then Some true
  else if String.eqb s "false" || String.eqb s "0" then Some false
  else None.

(** ** Blank-separated lists in one attribute ([xs:list]) *)
Definition is_space (c : ascii) : bool := byte_is 32 c.
Fixpoint join_sp (l : list string) : string :=
  match l with
  | [] => EmptyString
  | [x] => x
  | x :: r => x ++ String " " (join_sp r)
  end.
(** the maximal runs of non-space bytes ([cur] = current run, reversed) *)
Fixpoint split_sp_aux (cur : list ascii) (s : string) : list string :=
  match s with
  | EmptyString => match cur with [] => [] | _ => [string_of_list_ascii (rev cur)] end
  | String c r =>
      if is_space c
      then match cur with
           | [] => split_sp_aux [] r
           | _ => string_of_list_ascii (rev cur) :: split_sp_aux [] r
           end
      else split_sp_aux (c :: cur) r
  end.
Definition split_sp (s : string) : list string := split_sp_aux [] s.

(** an item of such a list: non-empty, without a blank *)
Fixpoint str_exists (f : ascii -> bool) (s : string) : bool :=
  match s with String c r => f c || str_exists f r | EmptyString => false end.
Definition token (s : string) : Prop := s <> EmptyString /\ str_exists is_space s = false.

Fixpoint all_opt {A} (l : list (option A)) : option (list A) :=
  match l with
  | [] => Some []
  | None :: _ => None
  | Some x :: r => match all_opt r with Some xs => Some (x :: xs) | None => None end
  end.

(** ** What a conforming XML 1.0 reader finds in a file whose writer escaped only the mark-up
    characters (less-than, greater-than, ampersand, double quote) *)
(** bytes that cannot occur in an XML 1.0 document at all: C0 controls except tab, LF, CR.
    (U+FFFE / U+FFFF are three-byte sequences EF BF BE / EF BF BF, see [has_nonchar].) *)
Definition byte_forbidden (c : ascii) : bool :=
  let n := N_of_ascii c in
  (n <? 32)%N && negb (N.eqb n 9 || N.eqb n 10 || N.eqb n 13).
Fixpoint has_nonchar (s : string) : bool :=
  match s with
  | String a r1 =>
      match r1 with
      | String b (String c _) =>
          (byte_is 239 a && byte_is 191 b && (byte_is 190 c || byte_is 191 c)) || has_nonchar r1
      | _ => false
      end
  | EmptyString => false
  end.
Definition xml_unrepresentable (s : string) : bool := str_exists byte_forbidden s || has_nonchar s.

(** attribute-value normalisation: literal tab, LF, CR become a space (CR LF one space) *)
Fixpoint norm_attr (s : string) : string :=
  match s with
  | EmptyString => EmptyString
  | String c r =>
      if byte_is 13 c
      then match r with
           | String c2 r2 => if byte_is 10 c2 then String " " (norm_attr r2) else String " " (norm_attr r)
           | EmptyString => String " " EmptyString
           end
      else if byte_is 9 c || byte_is 10 c then String " " (norm_attr r)
      else String c (norm_attr r)
  end.
(** line-end normalisation of character data: CR LF and lone CR become LF *)
Definition lf : ascii := ascii_of_N 10.
Fixpoint norm_text (s : string) : string :=
  match s with
  | EmptyString => EmptyString
  | String c r =>
      if byte_is 13 c
      then match r with
           | String c2 r2 => if byte_is 10 c2 then String lf (norm_text r2) else String lf (norm_text r)
           | EmptyString => String lf EmptyString
           end
      else String c (norm_text r)
  end.

Fixpoint all_opt_nodes (l : list (option node)) : option (list node) :=
  match l with
  | [] => Some []
  | None :: _ => None
  | Some x :: r => match all_opt_nodes r with Some xs => Some (x :: xs) | None => None end
  end.

(** [None]: the file is not well-formed XML 1.0 (the reader stops with an error). *)
Fixpoint reader_view (n : node) : option node :=
  match n with
  | Text s => if xml_unrepresentable s then None else Some (Text (norm_text s))
  | Elem name attrs kids =>
      if existsb (fun kv => xml_unrepresentable (snd kv)) attrs then None
      else match (fix go (l : list node) : option (list node) :=
                    match l with
                    | [] => Some []
                    | k :: r => match reader_view k, go r with
                                | Some k', Some r' => Some (k' :: r')
                                | _, _ => None
                                end
                    end) kids with
           | Some kids' => Some (Elem name (map (fun kv => (fst kv, norm_attr (snd kv))) attrs) kids')
           | None => None
           end
  end.

(** the class of trees a conforming reader does NOT read back unchanged, stated directly:
    a forbidden character anywhere; tab / LF / CR in an attribute value; CR in character data *)
Definition has_tab_lf_cr (s : string) : bool :=
  str_exists (fun c => byte_is 9 c || byte_is 10 c || byte_is 13 c) s.
Definition has_cr (s : string) : bool := str_exists (byte_is 13) s.
Fixpoint node_unclean (n : node) : bool :=
  match n with
  | Text s => xml_unrepresentable s || has_cr s
  | Elem _ attrs kids =>
      existsb (fun kv => xml_unrepresentable (snd kv) || has_tab_lf_cr (snd kv)) attrs
      || (fix go (l : list node) : bool :=
            match l with [] => false | k :: r => node_unclean k || go r end) kids
  end.

(** ** Equality and attribute-order normal form *)
Fixpoint attrs_eqb (a b : list (string * string)) : bool :=
  match a, b with
  | [], [] => true
  | (k, v) :: a', (k', v') :: b' => String.eqb k k' && String.eqb v v' && attrs_eqb a' b'
  | _, _ => false
  end.
Fixpoint node_eqb (a b : node) {struct a} : bool :=
  match a, b with
  | Text s, Text t => String.eqb s t
  | Elem n at1 k1, Elem m at2 k2 =>
      String.eqb n m && attrs_eqb at1 at2 &&
      (fix go (x y : list node) {struct x} : bool :=
         match x, y with
         | [], [] => true
         | p :: x', q :: y' => node_eqb p q && go x' y'
         | _, _ => false
         end) k1 k2
  | _, _ => false
  end.

(** attribute order is insignificant in XML: insertion sort of the attributes by name *)
Definition str_leb (a b : string) : bool :=
  match String.compare a b with Gt => false | _ => true end.
Fixpoint ins_attr (p : string * string) (l : list (string * string)) : list (string * string) :=
  match l with
  | [] => [p]
  | q :: r => if str_leb (fst p) (fst q) then p :: l else q :: ins_attr p r
  end.
Definition sort_attrs (l : list (string * string)) : list (string * string) :=
  fold_right ins_attr [] l.
Fixpoint norm_node (n : node) : node :=
  match n with
  | Text s => Text s
  | Elem name attrs kids =>
      Elem name (sort_attrs attrs)
           ((fix go (l : list node) : list node :=
               match l with [] => [] | k :: r => norm_node k :: go r end) kids)
  end.
