(** A schema-directed plist codec: the shape serde gives a Rust struct in a property list, as far
    as norad's fontinfo.plist needs it.  A schema says, for every plist key of a record, the schema
    of its value and three flags of the Rust field: [opt] (the type is [Option<T>]: written iff
    [Some], read as [None] when the key is missing), [skip] ([skip_serializing_if = "Vec::is_empty"]:
    an empty list is not written) and [dflt] ([#[serde(default)]]: a missing key is read as the
    default value).  A record may refuse unknown keys ([deny_unknown_fields]).  Leaves: strings,
    booleans, machine integers with their range, f64 written as integer-or-real
    ([IntegerOrFloat], optionally non-negative) or always as <real>, enums written as integers
    ([Serialize_repr]) or as strings, lists, and sequences of a fixed length (custom impls).
    Definitions only (laws: Proofs/FontInfoFileP.v). *)
Require Import Norad.Model.GlifSpec Norad.Model.GlifEncode.
Require Import Norad.Model.FontRT Norad.Model.FontReal Norad.Model.FontRealPlist Norad.Model.FontRealFiles.
Open Scope N_scope.

Definition flags : Type := (bool * bool * bool)%type.     (* opt, skip, dflt *)
Inductive schema : Type :=
| SStr
| SBool
| SInt (lo hi : Z)
| SNum (nonneg : bool)
| SFloat
| SEnumI (vals : list Z)
| SEnumS (vals : list str)
| SList (s : schema)
| SFix (n : nat) (s : schema)
| SRec (deny : bool) (fs : list (str * flags * schema)).
Definition field : Type := (str * flags * schema)%type.
Definition f_key (f : field) : str := fst (fst f).
Definition f_opt (f : field) : bool := fst (fst (snd (fst f))).
Definition f_skip (f : field) : bool := snd (fst (snd (fst f))).
Definition f_dflt (f : field) : bool := snd (snd (fst f)).
Definition f_schema (f : field) : schema := snd f.

Inductive sval : Type :=
| VStr (s : str)
| VBool (b : bool)
| VInt (z : Z)
| VNum (x : fl)
| VList (l : list sval)
| VRec (l : list sval)          (* one value per field of the record, in field order *)
| VOpt (o : option sval).       (* the value of an [Option<T>] field *)

Definition is_empty_list (v : sval) : bool := match v with VList [] => true | _ => false end.
(** what reaches the serializer for a field: nothing for [None] and for a skipped empty list *)
Definition field_written (fl_ : flags) (v : sval) : option sval :=
  let '(opt, skip, _) := fl_ in
  if opt then match v with VOpt (Some x) => Some x | _ => None end
  else if skip && is_empty_list v then None else Some v.

(** ** the writer: a struct is a dictionary of its written fields, in field order *)
Fixpoint write_s (s : schema) (v : sval) : pv :=
  match s, v with
  | SStr, VStr t => PStr t
  | SEnumS _, VStr t => PStr t
  | SBool, VBool b => PBool b
  | SInt _ _, VInt z => PInt z
  | SEnumI _, VInt z => PInt z
  | SNum _, VNum x => num_pv x
  | SFloat, VNum x => PReal x
  | SList s', VList l => PArr (map (write_s s') l)
  | SFix _ s', VList l => PArr (map (write_s s') l)
  | SRec _ fs, VRec vs =>
      PDict ((fix wf (fs : list (str * flags * schema)) (vs : list sval) : dict :=
                match fs, vs with
                | (k, fl_, s') :: fs', v :: vs' =>
                    match field_written fl_ v with
                    | Some x => (k, write_s s' x) :: wf fs' vs'
                    | None => wf fs' vs'
                    end
                | _, _ => []
                end) fs vs)
  | _, _ => PBool false
  end.

(** ** the reader *)
(** [Default::default()] of the types that carry [#[serde(default)]] *)
Definition dflt_of (s : schema) : sval :=
  match s with
  | SStr | SEnumS _ => VStr []
  | SBool => VBool false
  | SInt _ _ | SEnumI _ => VInt 0
  | SNum _ | SFloat => VNum f0
  | SList _ | SFix _ _ => VList []
  | SRec _ _ => VRec []
  end.
Definition fl_nonneg (x : fl) : bool := match x with FFin neg _ _ => negb neg | FInf neg => negb neg | FNaN => false end.

Fixpoint read_s (s : schema) (p : pv) : option sval :=
  match s with
  | SStr => match p with PStr t => Some (VStr t) | _ => None end
  | SEnumS vals => match p with PStr t => if mem_str t vals then Some (VStr t) else None | _ => None end
  | SBool => match p with PBool b => Some (VBool b) | _ => None end
  | SInt lo hi => match p with PInt z => if ((lo <=? z) && (z <=? hi))%Z then Some (VInt z) else None | _ => None end
  | SEnumI vals => match p with PInt z => if existsb (Z.eqb z) vals then Some (VInt z) else None | _ => None end
  | SNum nn => match pv_num p with
               | Some x => if nn && negb (fl_nonneg x) then None else Some (VNum x)
               | None => None
               end
  | SFloat => option_map VNum (pv_num p)
  | SList s' => match p with PArr l => option_map VList (omapM (read_s s') l) | _ => None end
  | SFix n s' => match p with
                 | PArr l => if Nat.eqb (List.length l) n then option_map VList (omapM (read_s s') l) else None
                 | _ => None
                 end
  | SRec deny fs =>
      match p with
      | PDict d =>
          if deny && negb (forallb (fun kx : str * pv => mem_str (fst kx) (map (fun f : field => f_key f) fs)) d) then None
          else option_map VRec
                 ((fix rf (fs : list (str * flags * schema)) : option (list sval) :=
                     match fs with
                     | [] => Some []
                     | (k, (opt, skip, dflt), s') :: fs' =>
                         match (match alookup k d with
                                | Some q => option_map (fun x => if opt then VOpt (Some x) else x) (read_s s' q)
                                | None => if opt then Some (VOpt None)
                                          else if dflt then Some (dflt_of s') else None
                                end), rf fs' with
                         | Some v, Some vs => Some (v :: vs)
                         | _, _ => None
                         end
                     end) fs)
      | _ => None
      end
  end.

(** ** well-typed values *)
Definition wf_numb (x : fl) : bool :=
  match x with
  | FFin neg m e => ((m =? 0) && (e =? 0)%Z && negb neg) || N.odd m
  | _ => false
  end.
Fixpoint wt (s : schema) (v : sval) : bool :=
  match s, v with
  | SStr, VStr _ => true
  | SEnumS vals, VStr t => mem_str t vals
  | SBool, VBool _ => true
  | SInt lo hi, VInt z => ((lo <=? z) && (z <=? hi))%Z
  | SEnumI vals, VInt z => existsb (Z.eqb z) vals
  | SNum nn, VNum x => wf_numb x && (negb nn || fl_nonneg x)
  | SFloat, VNum x => fl_finite x
  | SList s', VList l => forallb (wt s') l
  | SFix n s', VList l => Nat.eqb (List.length l) n && forallb (wt s') l
  | SRec _ fs, VRec vs =>
      (fix wtf (fs : list (str * flags * schema)) (vs : list sval) : bool :=
         match fs, vs with
         | [], [] => true
         | (k, (opt, skip, dflt), s') :: fs', v :: vs' =>
             (if opt then match v with VOpt None => true | VOpt (Some x) => wt s' x | _ => false end
              else wt s' v) && wtf fs' vs'
         | _, _ => false
         end) fs vs
  | _, _ => false
  end.

(** ** when a schema round-trips: the flags of every field agree between writer and reader, keys
    are distinct, integer ranges lie within what a plist integer holds *)
Definition is_list_schema (s : schema) : bool := match s with SList _ => true | _ => false end.
Fixpoint schema_rt_ok (s : schema) : bool :=
  match s with
  | SInt lo hi => (- 2 ^ 63 <=? lo)%Z && (hi <? 2 ^ 64)%Z
  | SEnumI vals => forallb (fun z => (- 2 ^ 63 <=? z)%Z && (z <? 2 ^ 64)%Z) vals
  | SList s' | SFix _ s' => schema_rt_ok s'
  | SRec _ fs =>
      nodup_keys (map (fun f : field => f_key f) fs) &&
      (fix ok (fs : list (str * flags * schema)) : bool :=
         match fs with
         | [] => true
         | (k, (opt, skip, dflt), s') :: fs' =>
             (* a field the writer may leave out must be one the reader fills in with the same value *)
             (opt || negb skip || (dflt && is_list_schema s')) && schema_rt_ok s' && ok fs'
         end) fs
  | _ => true
  end.
