(** A small executable instance of the signature of Model/FontRT.v.  It shows that the laws
    [sig_ok] are jointly satisfiable (Proofs/FontToyP.v), carries the non-vacuity examples of
    Props/C01.v, C04.v, C05.v, and is the instance the correspondence run evaluates: every part is
    reduced to what decides norad's own font-level logic (is it empty / default, which keys does a
    dictionary have, which identifiers and libs do the guidelines have, names and file names).
    Definitions only. *)
Require Export Norad.Model.FontRT.
Open Scope N_scope.

Inductive tpv : Type := TLeaf (n : N) | TDict (l : list (str * tpv)).
Definition tdict : Type := list (str * tpv).

Inductive tcontent : Type :=
| CMeta (m : meta)
| CInfo (si : sinfo N N)
| CDict (d : tdict)
| CGroups (g : N)
| CKerning (k : N)
| CPairs (l : list (str * str))
| CLi (v : option N * option tdict)
| CGlif (g : str * N).

Definition t_del (k : str) (d : tdict) : tdict := filter (fun e => negb (str_eqb (fst e) k)) d.
Definition t_deq (a b : tdict) : Prop := forall k, alookup k a = alookup k b.

Definition triv {X} (x : X) : Prop := True.

(** ASCII lower-casing (what [str::to_lowercase] does on the alphabet of the case-variant inputs
    of the correspondence run) *)
Definition lower_ascii (x : str) : str := map (fun c => if (65 <=? c) && (c <=? 90) then c + 32 else c) x.

(** the toy font-info validator: guideline identifiers are distinct (the part of
    [FontInfo::validate] the font-level logic relies on) *)
Definition toy_info_ok (i : finfo N N tdict) : bool :=
  match i_guides i with Some l => nodupb (some_ids (map g_id l)) | None => true end.

Definition mkpart {X} (inj : X -> tcontent) (prj : tcontent -> option X) (e : X -> X -> Prop)
  : part tcontent N X :=
  {| enc := fun _ x => Some (inj x); dec := prj; wf := triv; peq := e |}.

Definition toy_sig : sig := {|
  T_content := tcontent; T_opts := N; T_pv := tpv; T_dict := tdict;
  T_irest := N; T_gbody := N; T_color := N; T_groups := N; T_kerning := N; T_glyph := (str * N)%type;
  veq := eq; deq := t_deq;
  d_empty := []; d_get := fun k d => alookup k d; d_set := fun k v d => (k, v) :: d; d_del := t_del;
  d_is_empty := fun d => is_nil d;
  mk_dict := TDict; as_dict := fun v => match v with TDict l => Some l | TLeaf _ => None end;
  wf_key := triv; wf_pv := triv; wf_color := triv; lc_entry_wf := triv;
  P_meta := mkpart CMeta (fun c => match c with CMeta m => Some m | _ => None end) eq;
  P_info := mkpart CInfo (fun c => match c with CInfo x => Some x | _ => None end) eq;
  P_lib := mkpart CDict (fun c => match c with CDict x => Some x | _ => None end) t_deq;
  P_groups := mkpart CGroups (fun c => match c with CGroups x => Some x | _ => None end) eq;
  P_kerning := mkpart CKerning (fun c => match c with CKerning x => Some x | _ => None end) eq;
  P_lc := mkpart CPairs (fun c => match c with CPairs x => Some x | _ => None end) eq;
  P_contents := mkpart CPairs (fun c => match c with CPairs x => Some x | _ => None end) eq;
  P_li := mkpart CLi (fun c => match c with CLi x => Some x | _ => None end)
                 (fun a b => orel eq (fst a) (fst b) /\ orel t_deq (snd a) (snd b));
  P_glif := mkpart CGlif (fun c => match c with CGlif x => Some x | _ => None end) eq;
  irest_dflt := 0; irest_is_dflt := fun r => r =? 0;
  groups_dflt := 0; groups_is_empty := fun g => g =? 0;
  kerning_dflt := 0; kerning_is_empty := fun k => k =? 0;
  ceq := eq;
  groups_ok := fun _ => true; info_ok := toy_info_ok;
  lower := lower_ascii;
  glyph_name := fst; set_name := fun n g => (n, snd g);
  legacy_info := fun _ _ => None;
  upconvert_kerning := fun g k _ => (g, k);
  robofab := fun _ _ _ _ => None |}.

(** ** example values *)
Definition tguide (b : N) (id : option str) (lib : option tdict) : guideline N tdict :=
  {| g_body := b; g_id := id; g_lib := lib |}.
Definition tlayer (name dir : str) (color : option N) (lib : tdict) (gl : list (str * str * (str * N)))
  : layer N tdict (str * N) :=
  {| l_name := name; l_dir := dir; l_color := color; l_lib := lib; l_glyphs := gl |}.

(** a font exercising every gate: a foreign creator and a minor version, non-default info with two
    guidelines (one with a lib), a lib, groups, no kerning, feature text with CR LF, a default layer
    named [foreground] with a colour only, a second layer with a lib only and no glyphs, a data
    file, no images *)
Definition toy_font : font toy_sig :=
  Build_font toy_sig
    {| m_creator := Some (s "com.example"); m_version := 3; m_minor := 1 |}
    {| i_rest := 7;
       i_guides := Some [tguide 1 (Some (s "g1")) (Some [(s "k", TLeaf 5)]); tguide 2 None None] |}
    [(s "com.example.key", TLeaf 1)]
    2 0
    (s "a;" ++ [13; 10] ++ s "b;")
    [tlayer (s "foreground") (s "glyphs") (Some 9) []
            [(s "a", s "a.glif", (s "a", 1)); (s "B", s "B_.glif", (s "B", 2))];
     tlayer (s "bg") (s "glyphs.bg") None [(s "x", TLeaf 0)] []]
    [([s "d"; s "e.bin"], [1; 2; 3])]
    [].

(** the empty font: only metainfo.plist, layercontents.plist and glyphs/contents.plist *)
Definition toy_empty : font toy_sig :=
  Build_font toy_sig {| m_creator := Some NORAD_CREATOR; m_version := 3; m_minor := 0 |}
    (info_dflt toy_sig) [] 0 0 [] [tlayer DEFAULT_LAYER_NAME GLYPHS None [] []] [] [].

(** a writer that writes every optional file and puts the default layer last *)
Definition all_choices : choices := {|
  c_info := true; c_lib := true; c_groups := true; c_kerning := true; c_features := true;
  c_layerinfo := true; c_layerlib := true; c_data := true; c_images := true;
  c_norm_crlf := false; c_default_pos := 5 |}.

(** a format-3 tree with [public.objectLibs] in lib.plist and no fontinfo.plist *)
Definition toy_orphan_tree : tree toy_sig :=
  Build_tree toy_sig
    (Some (CMeta {| m_creator := None; m_version := 3; m_minor := 0 |}))
    None
    (Some (CDict [(OBJ, TDict [(s "id", TDict [])])]))
    None None None
    (Some (CPairs [(DEFAULT_LAYER_NAME, GLYPHS)]))
    [(GLYPHS, Build_ldir toy_sig (Some (CPairs [])) None [])]
    None None.
