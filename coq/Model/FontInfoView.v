(** fontinfo.plist, file and rules together.  C13 (Model/FontInfo.v) models what norad's typed
    deserialisers and [FontInfo::validate] look at in a fontinfo.plist as the record [FI.raw], and
    the rule-relevant part of a [FontInfo] value as [FI.info]; the schema codec (Model/FontInfoFile.v,
    Model/FontInfoSchema.v) models the whole file as a schema value [sval].  [raw_of_sval] is the view
    of the second as the first.  With it the reader and the writer of fontinfo.plist are composed of
    both layers:
      reading = plist tree -> [read_s font_info_schema] (serde's derived shape, unknown keys refused)
                -> the checks of the hand-written deserialisers and [validate] on the view ([FI.fi_load]);
      writing = [validate] and the serialiser's angle test on the view ([FI.fi_save]), then the tree of
                [write_s font_info_schema].
    Definitions only (laws: Proofs/FontInfoViewP.v). *)
Require Import Norad.Model.GlifSpec Norad.Model.GlifEncode.
Require Import Norad.Model.FontRT Norad.Model.FontRealInfo Norad.Model.FontRealPlist Norad.Model.FontRealFiles
               Norad.Model.FontInfoFile Norad.Model.FontInfoSchema.
From Coq Require Import String.
Open Scope N_scope.
Open Scope string_scope.

(** ** access to the fields of a record value by plist key *)
Fixpoint fields_get (fs : list field) (vs : list sval) (k : str) : option sval :=
  match fs, vs with
  | f :: fs', v :: vs' => if str_eqb (f_key f) k then Some v else fields_get fs' vs' k
  | _, _ => None
  end.
Definition rec_get (s : schema) (v : sval) (k : str) : option sval :=
  match s, v with SRec _ fs, VRec vs => fields_get fs vs k | _, _ => None end.
(** the payload of an [Option] field that is [Some] *)
Definition top (v : sval) (k : string) : option sval :=
  match rec_get font_info_schema v (s2l k) with Some (VOpt (Some x)) => Some x | _ => None end.
Definition field_schema (s : schema) (k : str) : schema :=
  match s with
  | SRec _ fs => match find (fun f : field => str_eqb (f_key f) k) fs with Some f => f_schema f | None => SBool end
  | _ => SBool
  end.
Definition elem_schema (s : schema) : schema := match s with SList s' | SFix _ s' => s' | _ => SBool end.
Definition sub (k : string) : schema := field_schema font_info_schema (s2l k).

Definition as_list (v : sval) : list sval := match v with VList l => l | _ => [] end.
Definition as_int (v : sval) : Z := match v with VInt z => z | _ => 0%Z end.
Definition as_str (v : sval) : str := match v with VStr t => t | _ => [] end.
Definition fi_fl (x : fl) : FI.fl :=
  match x with FFin n m e => FI.FFin n m e | FInf n => FI.FInf n | FNaN => FI.FNaN false end.
Definition as_num (v : sval) : option FI.fl := match v with VNum x => Some (fi_fl x) | _ => None end.
Definition osome (v : option sval) : option sval := match v with Some (VOpt (Some x)) => Some x | _ => None end.
Definition is_some {A} (o : option A) : bool := match o with Some _ => true | None => false end.

(** ** the view *)
Definition rguide_of_sval (g : sval) : FI.rguide :=
  let s := elem_schema (sub "guidelines") in
  let get k := osome (rec_get s g (s2l k)) in
  {| FI.rg_x := is_some (get "x"); FI.rg_y := is_some (get "y");
     FI.rg_angle := match get "angle" with Some a => as_num a | None => None end;
     FI.rg_id := option_map as_str (get "identifier") |}.
Definition gasp_of_sval (g : sval) : Z * list Z :=
  let s := elem_schema (sub "openTypeGaspRangeRecords") in
  (match rec_get s g (s2l "rangeMaxPPEM") with Some x => as_int x | None => 0%Z end,
   match rec_get s g (s2l "rangeGaspBehavior") with Some x => map as_int (as_list x) | None => [] end).
(** the blue / stem lists: the rules look at their lengths only *)
Definition zlist (o : option sval) : option (list Z) := option_map (fun v => map (fun _ => 0%Z) (as_list v)) o.
Definition count_of (rec_key list_key : string) (v : sval) : option nat :=
  match top v rec_key with
  | Some r => match rec_get (sub rec_key) r (s2l list_key) with Some l => Some (List.length (as_list l)) | None => Some O end
  | None => None
  end.
Definition witem_of_sval (s : schema) (it : sval) : FI.witem :=
  (match rec_get s it (s2l "names") with Some l => List.length (as_list l) | None => O end,
   match rec_get s it (s2l "values") with Some l => List.length (as_list l) | None => O end).
Definition wext_of_sval (r : sval) : list FI.witem :=
  let s := elem_schema (sub "woffMetadataExtensions") in
  match rec_get s r (s2l "items") with
  | Some l => map (witem_of_sval (elem_schema (field_schema s (s2l "items")))) (as_list l)
  | None => []
  end.
Definition u32_keys : list string :=
  ["openTypeHeadLowestRecPPEM"; "versionMinor"; "woffMajorVersion"; "woffMinorVersion"].

Definition raw_of_sval (v : sval) : FI.raw :=
  {| FI.r_hdate := option_map as_str (top v "openTypeHeadCreated");      (* code points: the date rule admits ASCII only *)
     FI.r_hgasp := option_map (fun l => map gasp_of_sval (as_list l)) (top v "openTypeGaspRangeRecords");
     FI.r_hguides := option_map (fun l => map rguide_of_sval (as_list l)) (top v "guidelines");
     FI.r_hselection := option_map (fun l => map as_int (as_list l)) (top v "openTypeOS2Selection");
     FI.r_hclass := option_map (fun l => map as_int (as_list l)) (top v "openTypeOS2FamilyClass");
     FI.r_hpanose := option_map (fun l => map as_int (as_list l)) (top v "openTypeOS2Panose");
     FI.r_hwidth := option_map as_int (top v "openTypeOS2WidthClass");
     FI.r_hcharset := option_map as_int (top v "postscriptWindowsCharacterSet");
     FI.r_hu32s := flat_map (fun k => match top v k with Some x => [as_int x] | None => [] end) u32_keys;
     FI.r_hupm := match top v "unitsPerEm" with Some x => as_num x | None => None end;
     FI.r_hblue := zlist (top v "postscriptBlueValues");
     FI.r_hoblue := zlist (top v "postscriptOtherBlues");
     FI.r_hfblue := zlist (top v "postscriptFamilyBlues");
     FI.r_hfoblue := zlist (top v "postscriptFamilyOtherBlues");
     FI.r_hstemh := zlist (top v "postscriptStemSnapH");
     FI.r_hstemv := zlist (top v "postscriptStemSnapV");
     FI.r_hwext := option_map (fun l => map wext_of_sval (as_list l)) (top v "woffMetadataExtensions");
     FI.r_hwcredits := count_of "woffMetadataCredits" "credits" v;
     FI.r_hwcopyright := count_of "woffMetadataCopyright" "text" v;
     FI.r_hwdescr := count_of "woffMetadataDescription" "text" v;
     FI.r_hwtrade := count_of "woffMetadataTrademark" "text" v;
     FI.r_hunknown := false |}.     (* [read_s] has refused unknown keys already *)

(** ** reader and writer of fontinfo.plist, both layers *)
Section File.
Variable pf : str -> option fl.
Variable ff : fl -> str.
Variable fi : Z -> str.

(** the value is one [FontInfo::validate] and the serialiser accept *)
Definition info_value_ok (v : sval) : Prop :=
  wt font_info_schema v = true /\
  exists i, FI.decode (raw_of_sval v) = Some i /\ FI.fi_save i = Ok i.

Definition save_info_file (v : sval) : option node :=
  match FI.decode (raw_of_sval v) with
  | Some i => match FI.fi_save i with
              | Ok _ => Some (plist_tree ff fi (write_s font_info_schema v))
              | _ => None
              end
  | None => None
  end.
Definition load_info_file (n : node) : option sval :=
  obind (obind (plist_value pf n) (read_s font_info_schema))
        (fun v => match FI.fi_load (raw_of_sval v) with Ok _ => Some v | _ => None end).

Definition P_info_file (O : Type) : part node O sval :=
  {| enc := fun _ v => save_info_file v; dec := load_info_file; wf := info_value_ok; peq := eq |}.
End File.
