(** C03 — small self-contained models of norad's panic sites (definitions only; proofs are in
    Proofs/TotalityP.v).  One model per site class; every [unwrap] / [expect] / index / slice /
    checked subtraction / [unreachable!] of the modelled code is an explicit [Panic site], every
    loop has explicit fuel whose exhaustion is the distinguished site [SITE_FUEL] (= "does not
    terminate").  The guard conditions are the ones of the code (the text of every condition of a
    function that contains a site is part of the regenerated anchor, see lib/anchors_c03.py). *)
Require Import Norad.Model.Base.
Open Scope N_scope.

(** site numbers (only their distinctness matters) *)
Definition SITE_FUEL := 1.          (* a loop ran out of fuel: non-termination *)
Definition SITE_U2F_BACKOFF := 10.  (* util.rs  boundary -= 1  (usize underflow) *)
Definition SITE_U2F_TRUNC := 11.    (* util.rs  result.truncate(..) not on a char boundary *)
Definition SITE_U2F_SUB := 12.      (* util.rs  result.len() - boundary / .. - NUMBER_LEN underflow *)
Definition SITE_U2F_RANGE := 13.    (* util.rs  replace_range(boundary..len) *)
Definition SITE_U2F_99 := 14.       (* util.rs  panic!("Could not find a unique file name after 99 tries"): DOCUMENTED *)
Definition SITE_SLICE := 20.        (* a [a..b] slice with a > b, b > len or off a char boundary *)
Definition SITE_INDEX := 21.        (* x[i] with i >= len *)
Definition SITE_UNWRAP := 22.       (* Option::unwrap on None / expect *)
Definition SITE_UNREACHABLE := 23.

(* ------------------------------------------------------------------------------------------ *)
(** * Text as code points with UTF-8 byte lengths (Rust [str]: byte offsets, char boundaries)  *)

Definition utf8_len (c : N) : N :=
  if c <? 128 then 1 else if c <? 2048 then 2 else if c <? 65536 then 3 else 4.
Fixpoint blen (s : str) : N := match s with [] => 0 | c :: r => utf8_len c + blen r end.

(** [str::is_char_boundary]: the offset is the byte length of a prefix (0 and [len] included;
    offsets beyond [len] are not boundaries) *)
Fixpoint is_cb (s : str) (i : N) : bool :=
  (i =? 0) || match s with
              | [] => false
              | c :: r => (utf8_len c <=? i) && is_cb r (i - utf8_len c)
              end.

(** the chars that lie entirely below byte offset [n] *)
Fixpoint take_bytes (s : str) (n : N) : str :=
  match s with
  | [] => []
  | c :: r => if utf8_len c <=? n then c :: take_bytes r (n - utf8_len c) else []
  end.
Fixpoint drop_bytes (s : str) (n : N) : str :=
  match s with
  | [] => []
  | c :: r => if utf8_len c <=? n then drop_bytes r (n - utf8_len c) else s
  end.

(** [String::truncate(n)]: no effect when [n > len], otherwise asserts a char boundary *)
Definition truncate (s : str) (n : N) : result str unit :=
  if blen s <? n then Ok s
  else if is_cb s n then Ok (take_bytes s n) else Panic SITE_U2F_TRUNC.

(** [&s[a..b]] on a [str] *)
Definition str_slice (s : str) (a b : N) : result str unit :=
  if (a <=? b) && (b <=? blen s) && is_cb s a && is_cb s b
  then Ok (take_bytes (drop_bytes s a) (b - a)) else Panic SITE_SLICE.

(* ------------------------------------------------------------------------------------------ *)
(** * util.rs  user_name_to_file_name  (public; prefix, suffix and the closure are arbitrary)  *)

(** [while !result.is_char_boundary(boundary) { boundary -= 1; }] with checked subtraction *)
Fixpoint backoff (fuel : nat) (s : str) (b : N) : result N unit :=
  if is_cb s b then Ok b
  else match fuel with
       | O => Panic SITE_FUEL
       | S f => if b =? 0 then Panic SITE_U2F_BACKOFF else backoff f s (b - 1)
       end.
Definition backoff_fuel (b : N) : nat := S (N.to_nat b).

Definition DOT := 46. Definition SPACE := 32. Definition USCORE := 95.
Definition MAX_LEN := 255. Definition NUMBER_LEN := 2.
Definition illegal : list N := [58;63;34;40;41;91;93;42;47;92;43;60;62;124].
Definition reserved : list str :=
  [[99;111;110]; [112;114;110]; [97;117;120]; [110;117;108]] ++
  map (fun d => [99;111;109;d]) [49;50;51;52;53;54;55;56;57] ++
  map (fun d => [108;112;116;d]) [49;50;51;52;53;54;55;56;57].
Definition isnil (s : str) : bool := match s with [] => true | _ => false end.
Definition is_ds (c : N) : bool := (c =? DOT) || (c =? SPACE).
Fixpoint stem (s : str) : str :=
  match s with [] => [] | c :: r => if c =? DOT then [] else c :: stem r end.
Definition two_digits (n : N) : str := [48 + n / 10; 48 + n mod 10].

Section U2F.
  Variable is_upper : N -> bool.          (* char::is_uppercase: nothing assumed *)
  Variable lower : str -> str.            (* str::to_lowercase: nothing assumed *)
  Variable accept : nat -> str -> bool.   (* the FnMut closure: may depend on the call number *)

  (** the per-char escaping; [out] is [result] so far (only its emptiness is inspected) *)
  Fixpoint escape (out_empty : bool) (name : str) : str :=
    match name with
    | [] => []
    | c :: r =>
        let e := if out_empty && (c =? DOT) then [USCORE]
                 else if existsb (N.eqb c) illegal then [USCORE]
                 else if is_upper c then [c; USCORE] else [c] in
        e ++ escape false r
    end.

  (** the loop [for (i, c) in result.char_indices().rev()]: [pos] is the byte offset just after
      the char being visited, [rev_chars] the chars before [pos] in reverse order *)
  Fixpoint trail_boundary (rev_chars : str) (pos prefix_len boundary : N) : N :=
    match rev_chars with
    | [] => boundary
    | c :: r =>
        let i := pos - utf8_len c in
        if (i <? prefix_len) || negb (is_ds c) then boundary
        else trail_boundary r i prefix_len i
    end.
  Definition ends_ds (s : str) : bool :=
    match rev s with c :: _ => is_ds c | [] => false end.

  (** everything up to and including [result.push_str(suffix)] *)
  Definition u2f_base (name prefix suffix : str) : result str unit :=
    let r0 := prefix ++ escape (isnil prefix) name in
    let reserved_hit := existsb (str_eqb (stem r0)) reserved in
    let r1 := if reserved_hit then USCORE :: r0 else r0 in          (* result.insert(0, '_') *)
    let prefix_len := if reserved_hit then blen prefix + 1 else blen prefix in
    bind (if MAX_LEN <? blen r1 + blen suffix
          then bind (backoff (backoff_fuel (MAX_LEN - blen suffix)) r1 (MAX_LEN - blen suffix))
                    (fun b => truncate r1 b)
          else Ok r1)
    (fun r2 =>
    bind (if isnil suffix && ends_ds r2
          then let b := trail_boundary (rev r2) (blen r2) prefix_len (blen r2) in
               if blen r2 <? b then Panic SITE_U2F_SUB                    (* result.len() - boundary *)
               else if is_cb r2 b
                    then Ok (take_bytes r2 b ++ repeat USCORE (N.to_nat (blen r2 - b)))
                    else Panic SITE_U2F_RANGE                             (* replace_range *)
          else Ok r2)
    (fun r3 => Ok (r3 ++ suffix))).

  (** [for counter in 1..100u8]; [k] is the number of closure calls made so far *)
  Fixpoint clash_loop (fuel : nat) (counter : N) (k : nat) (st suffix : str) : result str unit :=
    match fuel with
    | O => Panic SITE_U2F_99
    | S f =>
        let cand := st ++ two_digits counter ++ suffix in
        if accept k (lower cand) then Ok cand
        else let m := blen cand - blen suffix in                      (* saturating_sub *)
             if m <? NUMBER_LEN then Panic SITE_U2F_SUB                (* .. - NUMBER_LEN *)
             else bind (truncate cand (m - NUMBER_LEN))
                       (fun st' => clash_loop f (counter + 1) (S k) st' suffix)
    end.

  Definition u2f (name prefix suffix : str) : result str unit :=
    bind (u2f_base name prefix suffix) (fun full =>
    if accept 0%nat (lower full) then Ok full
    else
      bind (if MAX_LEN <? (blen full - blen suffix) + NUMBER_LEN
            then let b0 := MAX_LEN - blen suffix - NUMBER_LEN in
                 bind (backoff (backoff_fuel b0) full b0) (fun b => truncate full b)
            else truncate full (blen full - blen suffix))
      (fun st => clash_loop 99 1 1%nat st suffix)).
End U2F.

(* ------------------------------------------------------------------------------------------ *)
(** * glyph/parse.rs  parse_lib:  [&raw_xml[start..end]]  (a byte slice)                        *)

(** positions reported by the XML reader after successive events: non-decreasing and bounded by
    the input length (quick-xml's contract, L1) *)
Fixpoint mono_bounded (len last : N) (ps : list N) : Prop :=
  match ps with [] => True | p :: r => last <= p /\ p <= len /\ mono_bounded len p r end.

(** [start] = position after the [<lib>] tag; every later event that is not the closing tag
    sets [end] to the position after it; the closing tag leaves [end] alone *)
Definition parse_lib_slice (len start : N) (later : list N) : result (N * N) unit :=
  let e := last later start in
  if (start <=? e) && (e <=? len) then Ok (start, e) else Panic SITE_SLICE.

(* ------------------------------------------------------------------------------------------ *)
(** * fontinfo.rs  FontInfo::validate: the date slices, the gasp iterator                      *)

Definition DATE_LENGTH := 19.
Definition date_char (c : N) : bool :=
  ((48 <=? c) && (c <=? 57)) || (c =? 32) || (c =? 47) || (c =? 58).
Definition date_ranges : list (N * N) :=
  [(0,4);(4,5);(5,7);(7,8);(8,10);(10,11);(11,13);(13,14);(14,16);(16,17);(17,19)].
(** [None]: rejected by one of the two guards before any slicing *)
Definition date_slices (v : str) : option (list (result str unit)) :=
  if negb (blen v =? DATE_LENGTH) then None
  else if negb (forallb date_char v) then None
  else Some (map (fun ab => str_slice v (fst ab) (snd ab)) date_ranges).

(** [if v.len() > 1 { ... let mut last = vs_iter.next().unwrap(); ... }] *)
Definition gasp_first (v : list N) : result (option N) unit :=
  if (1 <? length v)%nat
  then match v with x :: _ => Ok (Some x) | [] => Panic SITE_UNWRAP end
  else Ok None.

(* ------------------------------------------------------------------------------------------ *)
(** * indexing a Vec after a length guard (fontinfo.rs deserialisers, parse.rs anchor upgrade)  *)

Definition index_site {A} (l : list A) (i : nat) : result A unit :=
  match nth_error l i with Some x => Ok x | None => Panic SITE_INDEX end.
(** [if values.len() != n { return Err }  ... values[0] .. values[n-1]] *)
Definition deser_fixed {A} (n : nat) (l : list A) : option (list (result A unit)) :=
  if negb (length l =? n)%nat then None else Some (map (index_site l) (seq 0 n)).
(** [if c.points.len() == 1 && c.points[0]... { c.points.remove(0) }] *)
Definition single_point_sites {A} (l : list A) : list (result A unit) :=
  if (length l =? 1)%nat then [index_site l 0; index_site l 0; index_site l 0] else [].

(* ------------------------------------------------------------------------------------------ *)
(** * glyph/mod.rs  Contour::to_kurbo: indices and subtractions                                 *)

Definition checked_sub (a b : nat) : result nat unit :=
  if (b <=? a)%nat then Ok (a - b)%nat else Panic SITE_U2F_SUB.
(** the off-curve-only branch (guard: [!points.is_empty()]) indexes [pts[len-1]], [pts[0]] and
    [pts[(i+1) % len]] for every [i < len]; [None]: the guard sent us elsewhere *)
Definition kurbo_offcurve_sites {A} (pts : list A) : option (list (result A unit)) :=
  match pts with
  | [] => None
  | _ =>
      let n := length pts in
      Some (bind (checked_sub n 1) (fun i => index_site pts i)
            :: index_site pts 0
            :: map (fun i => index_site pts (Nat.modulo (i + 1) n)) (seq 0 n))
  end.
(** [.rev().position(..).map(|idx| self.points.len() - 1 - idx)]: [idx] is a position in the
    reversed list, so [idx < len] *)
Fixpoint position {A} (p : A -> bool) (l : list A) : option nat :=
  match l with [] => None | x :: r => if p x then Some O else option_map S (position p r) end.
Definition kurbo_rotate {A} (p : A -> bool) (pts : list A) : result (option nat) unit :=
  match position p (rev pts) with
  | None => Ok None
  | Some idx => bind (checked_sub (length pts) 1) (fun a =>
                bind (checked_sub a idx) (fun r => Ok (Some r)))
  end.

(* ------------------------------------------------------------------------------------------ *)
(** * layer.rs  LayerContents: [layers[0]], rename_layer's position-unwrap, retain              *)

Record layer := { lname : str; lpath : str }.
Definition lc := list layer.
Definition DEFAULT_LAYER_NAME : str := [112;117;98;108;105;99;46;100;101;102;97;117;108;116].
Definition DEFAULT_DIR : str := [103;108;121;112;104;115].
Definition is_default (l : layer) : bool := str_eqb (lpath l) DEFAULT_DIR.
Definition has_name (n : str) (l : layer) : bool := str_eqb (lname l) n.

Inductive lerr := Duplicate | Missing | ReservedName | Invalid.

Definition layer0 (s : lc) : result layer lerr :=
  match s with l :: _ => Ok l | [] => Panic SITE_INDEX end.

(** [LayerContents::remove]: never the first layer *)
Fixpoint remove_first (n : str) (l : lc) : lc :=
  match l with [] => [] | x :: r => if has_name n x then r else x :: remove_first n r end.
Definition lc_remove (n : str) (s : lc) : lc :=
  match s with [] => [] | d :: r => d :: remove_first n r end.

Fixpoint set_nth (i : nat) (f : layer -> layer) (s : lc) : lc :=
  match s, i with
  | [], _ => []
  | x :: r, O => f x :: r
  | x :: r, S j => x :: set_nth j f r
  end.

Section LC.
  Variable name_ok : str -> bool.        (* Name::new accepts *)
  Variable fresh_dir : str -> lc -> str. (* the directory the file-name algorithm assigns: arbitrary *)

  (** [rename_layer(old, new, overwrite)], branch by branch in the order of the code *)
  Definition rename_layer (s : lc) (old new : str) (ow : bool) : result lc lerr :=
    if negb ow && existsb (has_name new) s then Err Duplicate
    else if negb (existsb (has_name old) s) then Err Missing
    else bind (layer0 s) (fun l0 =>
      if str_eqb new DEFAULT_LAYER_NAME && negb (has_name old l0) then Err ReservedName
      else if str_eqb old new then Ok s
      else if has_name new l0 then Err Duplicate
      else if negb (name_ok new) then Err Invalid
      else
        let s1 := if ow then lc_remove new s else s in
        match position (has_name old) s1 with
        | None => Panic SITE_UNWRAP
        | Some O => Ok (set_nth O (fun l => {| lname := new; lpath := lpath l |}) s1)
        | Some p => Ok (set_nth p (fun l => {| lname := new; lpath := fresh_dir new s1 |}) s1)
        end).

  Definition new_layer (s : lc) (n : str) : result lc lerr :=
    if str_eqb n DEFAULT_LAYER_NAME then Err ReservedName
    else if existsb (has_name n) s then Err Duplicate
    else if negb (name_ok n) then Err Invalid
    else let s' := s ++ [{| lname := n; lpath := fresh_dir n s |}] in
         match last s' {| lname := []; lpath := [] |}, s' with
         | _, [] => Panic SITE_UNWRAP          (* self.layers.last_mut().unwrap() *)
         | _, _ => Ok s'
         end.

  Inductive lop :=
  | LNew (n : str) | LRemove (n : str) | LRename (old new : str) (ow : bool)
  | LGetOrCreate (n : str) | LRetain (p : layer -> bool)
  | LDefaultLayer                      (* default_layer() / default_layer_mut() / Font::save *)
  | LAssign (i : nat) (v : layer).     (* [*slot = value] through a [&mut Layer] handed out by
                                          default_layer_mut / get_mut / iter_mut *)

  (** errors leave the state unchanged (every error is returned before any mutation) *)
  Definition lstep (s : lc) (o : lop) : result lc lerr :=
    match o with
    | LNew n => match new_layer s n with Err _ => Ok s | r => r end
    | LRemove n => Ok (lc_remove n s)
    | LRename a b ow => match rename_layer s a b ow with Err _ => Ok s | r => r end
    | LGetOrCreate n =>
        match position (has_name n) s with
        | Some i => match nth_error s i with Some _ => Ok s | None => Panic SITE_INDEX end
        | None => match new_layer s n with Err _ => Ok s | r => r end
        end
    | LRetain p => Ok (filter (fun l => is_default l || p l) s)
    | LDefaultLayer => bind (layer0 s) (fun _ => Ok s)
    | LAssign i v => Ok (set_nth i (fun _ => v) s)
    end.
  Fixpoint lrun (s : lc) (ops : list lop) : result lc lerr :=
    match ops with [] => Ok s | o :: r => bind (lstep s o) (fun s' => lrun s' r) end.

  Definition lc_inv (s : lc) : Prop := exists d r, s = d :: r /\ is_default d = true.
  Definition no_assign (o : lop) : Prop := match o with LAssign _ _ => False | _ => True end.
End LC.
Definition lc_default : lc := [{| lname := DEFAULT_LAYER_NAME; lpath := DEFAULT_DIR |}].

(* ------------------------------------------------------------------------------------------ *)
(** * layer.rs  Layer: the glyph map and the contents index; save's expect                     *)

Record lay := { glyphs : list str; contents : list str }.   (* the key sets of the two maps *)
Definition smem (n : str) (l : list str) : bool := existsb (str_eqb n) l.
Definition sdel (n : str) (l : list str) : list str := filter (fun x => negb (str_eqb n x)) l.
Definition sadd (n : str) (l : list str) : list str := if smem n l then l else n :: l.

Definition insert_glyph (s : lay) (n : str) : lay :=
  {| glyphs := sadd n (glyphs s); contents := sadd n (contents s) |}.
Definition remove_glyph (s : lay) (n : str) : lay * bool :=
  ({| glyphs := sdel n (glyphs s); contents := sdel n (contents s) |}, smem n (glyphs s)).

Inductive gop :=
| GInsert (n : str) | GRemove (n : str) | GRename (old new : str) (ow : bool) | GClear
| GRetain (p : str -> bool)
| GEntryInsert (n : str)      (* layer.entry(n).or_insert(..): touches the glyph map only *)
| GEntryRemove (n : str).     (* layer.entry(n) -> OccupiedEntry::remove() *)

Section LAY.
  Variable name_ok : str -> bool.
  Definition rename_glyph (s : lay) (old new : str) (ow : bool) : result lay lerr :=
    if negb ow && smem new (glyphs s) then Err Duplicate
    else if negb (smem old (glyphs s)) then Err Missing
    else if negb (name_ok new) then Err Invalid
    else let (s1, found) := remove_glyph s old in
         if found then Ok (insert_glyph s1 new) else Panic SITE_UNWRAP.   (* .unwrap() *)
  Definition gstep (s : lay) (o : gop) : result lay lerr :=
    match o with
    | GInsert n => Ok (insert_glyph s n)
    | GRemove n => Ok (fst (remove_glyph s n))
    | GRename a b ow => match rename_glyph s a b ow with Err _ => Ok s | r => r end
    | GClear => Ok {| glyphs := []; contents := [] |}
    | GRetain p => let g := filter p (glyphs s) in
                   Ok {| glyphs := g; contents := filter (fun n => smem n g) (contents s) |}
    | GEntryInsert n => Ok {| glyphs := sadd n (glyphs s); contents := contents s |}
    | GEntryRemove n => Ok {| glyphs := sdel n (glyphs s); contents := contents s |}
    end.
  Fixpoint grun (s : lay) (ops : list gop) : result lay lerr :=
    match ops with [] => Ok s | o :: r => bind (gstep s o) (fun s' => grun s' r) end.
End LAY.
(** [save_with_options]: one lookup per contents entry *)
Definition lay_save (s : lay) : result unit lerr :=
  if forallb (fun n => smem n (glyphs s)) (contents s) then Ok tt else Panic SITE_UNWRAP.
Definition lay_inv (s : lay) : Prop := forall n, smem n (contents s) = true -> smem n (glyphs s) = true.
Definition no_entry_remove (o : gop) : Prop := match o with GEntryRemove _ => False | _ => True end.
(** a loaded layer: both maps are built from the same contents.plist *)
Definition lay_loaded (keys : list str) : lay := {| glyphs := keys; contents := keys |}.

(* ------------------------------------------------------------------------------------------ *)
(** * datastore.rs / font.rs: lazily loaded cells; save's pre-check then expect                *)

Inductive item := NotLoaded | Loaded (d : N) | Failed (e : N).
Definition store := list (N * item).        (* cells by key; a HashMap look-up of a key of the
                                               map returns that key's cell *)
Section STORE.
  Variable read : N -> N + N.               (* try_load_item + validate_entry: data or error *)
  Definition load_item (k : N) : item := match read k with inl d => Loaded d | inr e => Failed e end.
  Definition force (c : N * item) : N * item :=
    match snd c with NotLoaded => (fst c, load_item (fst c)) | _ => c end.
  (** [Store::get] on an existing cell: the cell afterwards and the returned value *)
  Definition get_cell (c : N * item) : (N * item) * result (N + N) unit :=
    let c' := force c in
    (c', match snd c' with Loaded d => Ok (inl d) | Failed e => Ok (inr e)
                         | NotLoaded => Panic SITE_UNREACHABLE end).
  (** [Store::iter]: every cell forced, in place *)
  Definition iter_store (s : store) : store * list (result (N + N) unit) :=
    (map (fun c => fst (get_cell c)) s, map (fun c => snd (get_cell c)) s).
  (** Font::save_impl: the pre-check returns the first error; after it (and after the target was
      wiped) the entries are iterated again and [expect]ed *)
  Definition is_err (r : result (N + N) unit) : bool := match r with Ok (inl _) => false | _ => true end.
  Definition save_stores (s : store) : result (list N) N :=
    let (s1, rs) := iter_store s in
    match find is_err rs with
    | Some (Ok (inr e)) => Err e
    | Some _ => Panic SITE_UNREACHABLE
    | None =>
        let (_, rs2) := iter_store s1 in
        fold_right (fun r acc => bind acc (fun l =>
                      match r with Ok (inl d) => Ok (d :: l) | _ => Panic SITE_UNWRAP end))
                   (Ok []) rs2
    end.
End STORE.

(* ------------------------------------------------------------------------------------------ *)
(** * paths as component lists: parent(), file_name(), strip_prefix()                          *)

Inductive comp := Normal (s : N) | ParentDir | CurDir | RootDir.
Definition path := list comp.
Definition is_normal (c : comp) : bool := match c with Normal _ => true | _ => false end.
(** [Path::join] of a relative path *)
Definition join (a b : path) : path := a ++ b.
Definition parent (p : path) : option path :=
  match rev p with [] => None | RootDir :: _ => None | _ :: r => Some (rev r) end.
Definition file_name (p : path) : option N :=
  match rev p with Normal s :: _ => Some s | _ => None end.
(** [validate_entry]: non-empty, relative, only normal components *)
Definition key_ok (k : path) : bool := negb (match k with [] => true | _ => false end) && forallb is_normal k.
Definition data_destination_parent (data_dir k : path) : result path unit :=
  match parent (join data_dir k) with Some p => Ok p | None => Panic SITE_UNWRAP end.
(** Layer::load_impl: [path.file_name().unwrap()] on [base_dir.join(dir)] *)
Definition layer_dir_name (base dir : path) : result N unit :=
  match file_name (join base dir) with Some n => Ok n | None => Panic SITE_UNWRAP end.

Fixpoint strip_prefix (pre p : path) : option path :=
  match pre, p with
  | [], _ => Some p
  | Normal a :: pre', Normal b :: p' => if a =? b then strip_prefix pre' p' else None
  | ParentDir :: pre', ParentDir :: p' => strip_prefix pre' p'
  | CurDir :: pre', CurDir :: p' => strip_prefix pre' p'
  | RootDir :: pre', RootDir :: p' => strip_prefix pre' p'
  | _, _ => None
  end.
(** the directory walk of [Data::try_list_contents]: a stack of directories, all entries of a
    directory are [dir.join(name)]; [ls] is the file system (arbitrary), kinds 0 file / 1 dir /
    other (refused) *)
Section WALK.
  Variable ls : path -> list (N * N).
  Fixpoint walk (fuel : nat) (root : path) (queue : list path) (acc : list path) : result (list path) N :=
    match fuel with
    | O => Err 0                                     (* fuel: the tree is finite, not modelled *)
    | S f =>
        match queue with
        | [] => Ok acc
        | d :: q =>
            let step := fix step (es : list (N * N)) (q : list path) (acc : list path) :=
              match es with
              | [] => Ok (q, acc)
              | (name, kind) :: es' =>
                  let p := join d [Normal name] in
                  if kind =? 0 then
                    match strip_prefix root p with
                    | Some k => step es' q (k :: acc)
                    | None => Panic SITE_UNWRAP
                    end
                  else if kind =? 1 then step es' (p :: q) acc
                  else Err 1
              end in
            match step (ls d) q acc with
            | Ok (q', acc') => walk f root q' acc'
            | Err e => Err e
            | Panic s => Panic s
            end
        end
    end.
End WALK.

(* ------------------------------------------------------------------------------------------ *)
(** * object libs: [lib.is_some() -> identifier.is_some()] (Anchor, Guideline, Contour, ...)   *)

Record obj := { oid : option N; olib : option N }.
Inductive oop :=
| OReplaceLib (l : N) (fresh_id : N)   (* sets a fresh UUID identifier when none is set *)
| OTakeLib | OReplaceId (i : N)
| OLoadTransfer (l : N).                (* load_object_libs: only for objects with an identifier *)
Definition onew (id : option N) : obj := {| oid := id; olib := None |}.
Definition ostep (o : obj) (p : oop) : obj :=
  match p with
  | OReplaceLib l f => {| oid := match oid o with None => Some f | x => x end; olib := Some l |}
  | OTakeLib => {| oid := oid o; olib := None |}
  | OReplaceId i => {| oid := Some i; olib := olib o |}
  | OLoadTransfer l => match oid o with Some _ => {| oid := oid o; olib := Some l |} | None => o end
  end.
(** dump_object_libs: [if let Some(lib) = x.lib() { .. id.unwrap() .. }] *)
Definition odump (o : obj) : result (option (N * N)) unit :=
  match olib o with
  | None => Ok None
  | Some l => match oid o with Some i => Ok (Some (i, l)) | None => Panic SITE_UNWRAP end
  end.

(* ------------------------------------------------------------------------------------------ *)
(** * upconversion.rs: the Name::new unwraps, the group look-ups, make_unique_group_name       *)

Definition is_ctrl (c : N) : bool := (c <=? 31) || ((128 <=? c) && (c <=? 159)) || (c =? 127).
Definition name_valid (s : str) : bool := negb (isnil s) && forallb (fun c => negb (is_ctrl c)) s.
Definition ident_valid (s : str) : bool :=
  (length s <=? 100)%nat && forallb (fun c => (32 <=? c) && (c <=? 126)) s.

Fixpoint prefixb (n h : str) : bool :=
  match n, h with
  | [], _ => true
  | x :: n', y :: h' => (x =? y) && prefixb n' h'
  | _ :: _, [] => false
  end.
(** [str::replace(pat, "")] for a non-empty pattern: non-overlapping matches, left to right *)
Fixpoint remove_all (fuel : nat) (pat s : str) : str :=
  match fuel with
  | O => s
  | S f =>
      match s with
      | [] => []
      | c :: r => if prefixb pat s then remove_all f pat (skipn (length pat) s)
                  else c :: remove_all f pat r
      end
  end.
Definition new_name (s : str) : result str unit :=
  if name_valid s then Ok s else Panic SITE_UNWRAP.          (* Name::new(..).unwrap() *)

Section UNIQUE.
  Variable render : N -> str.       (* format!("{}", counter): L1; used only through injectivity *)
  (** [while existing.contains_key(&new_name) { new_name = name ++ counter; counter += 1 }] *)
  Fixpoint unique_loop (fuel : nat) (name : str) (existing : list str) (cur : str) (counter : N)
    : result str unit :=
    if negb (smem cur existing) then Ok cur
    else match fuel with
         | O => Panic SITE_FUEL
         | S f => bind (new_name (name ++ render counter))
                       (fun n => unique_loop f name existing n (counter + 1))
         end.
  Definition make_unique (name : str) (existing : list str) : result str unit :=
    unique_loop (S (length existing)) name existing name 1.
End UNIQUE.

(** the first loop of upconvert_kerning: every [first] is a key of [groups]; [groups_new] starts
    as a copy and only grows; [get(first).unwrap()] *)
Fixpoint upconv_side (mk : str -> list str -> str) (firsts groups_new : list str) : result (list str) unit :=
  match firsts with
  | [] => Ok groups_new
  | f :: r => if smem f groups_new then upconv_side mk r (mk f groups_new :: groups_new)
              else Panic SITE_UNWRAP
  end.

(* ------------------------------------------------------------------------------------------ *)
(** * serde_xml_plist.rs: ValueInnerHelper is never built for a boolean                        *)

Inductive vkind := KArray | KDict | KTrue | KFalse | KData | KDate | KReal | KInt | KString | KOther.
Definition inner_helper (k : vkind) : result unit unit :=
  match k with KTrue | KFalse => Panic SITE_UNREACHABLE | KOther => Err tt | _ => Ok tt end.
Definition serialize_within (k : vkind) : result unit unit :=
  match k with
  | KArray | KDict | KTrue | KFalse => Ok tt
  | KData | KDate | KReal | KInt | KString => inner_helper k
  | KOther => Err tt
  end.

(** parse_advance: the inner match repeats the patterns of the arm it sits in *)
Definition advance_inner (key : N) : result N unit :=
  if (key =? 1) || (key =? 2) then (if key =? 1 then Ok 1 else if key =? 2 then Ok 2 else Panic SITE_UNREACHABLE)
  else Err tt.

(** Identifier::from_uuidv4: the hyphenated lower-case form, 36 chars of [0-9a-f-] *)
Definition uuid_char (c : N) : bool := ((48 <=? c) && (c <=? 57)) || ((97 <=? c) && (c <=? 102)) || (c =? 45).
Definition from_uuid (s : str) : result str unit :=
  if ident_valid s then Ok s else Panic SITE_UNWRAP.

(* ------------------------------------------------------------------------------------------ *)
(** * glyph/serialize.rs  Image::to_event: [file_name.to_str().expect("missing path")]          *)

(** what Image::new and to_event look at in the [PathBuf] *)
Record ospath := { os_utf8 : bool; os_empty : bool; os_absolute : bool; os_has_parent : bool }.
Inductive ierr := EmptyPath | PathIsAbsolute | Subdir.
Definition image_new (p : ospath) : result ospath ierr :=
  if os_empty p then Err EmptyPath
  else if os_absolute p then Err PathIsAbsolute
  else if os_has_parent p then Err Subdir
  else Ok p.
Definition image_to_event (p : ospath) : result unit ierr :=
  if os_utf8 p then Ok tt else Panic SITE_UNWRAP.
