(** Tree-level codecs of the remaining four plist files — lib.plist, layerinfo.plist, groups.plist,
    kerning.plist — in the style of Model/FontRealPlist.v: the writer is [pv_node] applied to the
    value norad hands to the plist serializer, the reader is [pv_of] followed by the deserializer of
    the file's shape.  With the three files of FontRealPlist.v they make [all_files], a [codecs]
    in which no file codec is abstract.  Definitions only (laws: Proofs/FontRealFilesP.v). *)
Require Import Norad.Model.GlifSpec Norad.Model.GlifEncode.
Require Norad.Model.Num.
Require Import Norad.Model.FontRT Norad.Model.FontRealInfo Norad.Model.FontReal Norad.Model.FontRealPlist.
Open Scope N_scope.

(** ** a [BTreeMap<Name, V>] written as a dictionary: entries in map order; read by inserting the
    entries of the file one by one, keys through [Name]'s deserialiser *)
Definition map_pv {V} (f : V -> pv) (m : list (str * V)) : pv :=
  PDict (map (fun e => (fst e, f (snd e))) m).
Definition pv_map {V} (g : pv -> option V) (v : pv) : option (list (str * V)) :=
  match v with
  | PDict d =>
      option_map (fun l => fold_left (fun acc e => bt_insert (fst e) (snd e) acc) l [])
        (omapM (fun kx : str * pv =>
                  if name_valid (fst kx) then option_map (fun x => (fst kx, x)) (g (snd kx)) else None) d)
  | _ => None
  end.
Definition wf_map {V} (w : V -> Prop) (m : list (str * V)) : Prop :=
  ssorted m /\ Forall (fun e => name_valid (fst e) = true /\ w (snd e)) m.

(** ** groups.plist: group name -> array of glyph names *)
Definition names_pv (l : list str) : pv := PArr (map PStr l).
Definition pv_names (v : pv) : option (list str) :=
  match v with
  | PArr xs => omapM (fun x => match x with
                               | PStr n => if name_valid n then Some n else None
                               | _ => None
                               end) xs
  | _ => None
  end.
Definition wf_names (l : list str) : Prop := Forall (fun n => name_valid n = true) l.
Definition groups_pv : GR.groups -> pv := map_pv names_pv.
Definition pv_groups : pv -> option GR.groups := pv_map pv_names.
Definition wf_groups : GR.groups -> Prop := wf_map wf_names.

(** ** kerning numbers ([KerningInnerSerializer]): an <integer> when the value equals its rounding
    and lies within the i32 range, a <real> otherwise; either is read as an f64 *)
Definition fl_of_num (x : Num.f64) : fl :=
  match x with
  | Num.Fin m e => FFin (m <? 0)%Z (Z.abs_N m) e
  | Num.NegZero => FFin true 0 0
  | Num.Inf b => FInf b
  | Num.NaN => FNaN
  end.
Definition Z_fl (z : Z) : fl := fl_of_num (Num.f64_of_Z z).        (* [as f64], rounding included *)
(** the integer a canonical finite value is, if it is one (m odd and e < 0: a fraction) *)
Definition fl_int (x : fl) : option Z :=
  match x with
  | FFin neg m e => if (0 <=? e)%Z then Some (fl_z neg m e 0) else None
  | _ => None
  end.
Definition in_i32 (z : Z) : bool := ((- 2 ^ 31 <=? z) && (z <=? 2 ^ 31 - 1))%Z.
Definition num_pv (x : fl) : pv :=
  match fl_int x with
  | Some z => if in_i32 z then PInt z else PReal x
  | None => PReal x
  end.
Definition pv_num (v : pv) : option fl :=
  match v with
  | PInt z => Some (Z_fl z)
  | PReal x => Some x
  | _ => None
  end.
(** finite, in canonical representation (odd mantissa, or zero), not the negative zero (which is
    written as the integer 0) *)
Definition wf_num (x : fl) : Prop :=
  match x with
  | FFin neg m e => (m = 0 /\ e = 0%Z /\ neg = false) \/ N.odd m = true
  | _ => False
  end.

(** every <real> below a value is finite *)
Fixpoint reals_finite (v : pv) : bool :=
  match v with
  | PReal x => fl_finite x
  | PArr l => forallb reals_finite l
  | PDict d => forallb (fun kx : str * pv => reals_finite (snd kx)) d
  | _ => true
  end.

Section Files.
Variable pf : str -> option fl.
Variables ff ff3 : fl -> str.
Variable fi : Z -> str.
(** [f64::to_bits] / [f64::from_bits]: the kerning maps of Model/Groups.v hold bit patterns *)
Variable to_bits : fl -> N.
Variable of_bits : N -> fl.
Variable lw : str -> str.          (* str::to_lowercase *)

(** ** lib.plist: the dictionary itself, keys sorted recursively before writing
    ([util::recursive_sort_plist_keys]; [nf] is that sort on every [Dictionary]) *)
Definition wf_pv_real (v : pv) : Prop := pv_good 0 (nf v) = true.
Definition wf_lib (d : dict) : Prop := forall k v, alookup k d = Some v -> wf_pv_real v.
Definition lib_pv (d : dict) : pv := nf (PDict d).
Definition pv_lib (v : pv) : option dict := match v with PDict d => Some d | _ => None end.

(** ** layerinfo.plist: [color] (a string) and [lib], each written when present
    ([layerinfo_to_file_if_needed]), keys sorted recursively; unknown keys are ignored on reading *)
Definition k_color : str := s2l "color".
Definition k_lib : str := s2l "lib".
Definition wf_color_real (c : color) : Prop := color_val_ok c = true /\ color_fixed pf ff3 c.
Definition li_pv (x : option color * option dict) : pv :=
  PDict ((match fst x with Some c => [(k_color, PStr (color_str ff3 c))] | None => [] end) ++
         (match snd x with Some l => [(k_lib, nf (PDict l))] | None => [] end)).
Definition pv_li (v : pv) : option (option color * option dict) :=
  match v with
  | PDict d =>
      match (match alookup k_color d with
             | None => Some None
             | Some (PStr s) => option_map Some (parse_color pf s)
             | Some _ => None
             end),
            (match alookup k_lib d with
             | None => Some None
             | Some (PDict l) => Some (Some l)
             | Some _ => None
             end) with
      | Some c, Some l => Some (c, l)
      | _, _ => None
      end
  | _ => None
  end.
Definition wf_li (x : option color * option dict) : Prop :=
  (forall c, fst x = Some c -> wf_color_real c) /\ (forall l, snd x = Some l -> wf_lib l).
Definition li_eq (a b : option color * option dict) : Prop :=
  orel eq (fst a) (fst b) /\ orel pd_eq (snd a) (snd b).

(** ** kerning.plist: first name -> second name -> number *)
Definition kn_to (v : GR.val) : pv := num_pv (of_bits v).
Definition kn_of (p : pv) : option GR.val := option_map to_bits (pv_num p).
Definition kn_wf (v : GR.val) : Prop := wf_num (of_bits v).
Definition kerning_pv : GR.kerning -> pv := map_pv (map_pv kn_to).
Definition pv_kerning : pv -> option GR.kerning := pv_map (pv_map kn_of).
Definition wf_kerning : GR.kerning -> Prop := wf_map (wf_map kn_wf).

(** ** the parts, and the [codecs] in which every file is read and written through the plist tree *)
Definition P_lib_real : part node unit dict := plist_part_e pf ff fi lib_pv pv_lib wf_lib pd_eq.
Definition P_li_real : part node unit (option color * option dict) := plist_part_e pf ff fi li_pv pv_li wf_li li_eq.
Definition P_groups_real : part node unit GR.groups := plist_part pf ff fi groups_pv pv_groups wf_groups.
Definition P_kerning_real : part node unit GR.kerning := plist_part pf ff fi kerning_pv pv_kerning wf_kerning.

Definition all_files : codecs := {|
  K_content := node; K_opts := unit; K_color := color;
  K_meta := P_meta_real pf ff fi unit;
  K_lib := P_lib_real;
  K_groups := P_groups_real;
  K_kerning := P_kerning_real;
  K_lc := P_lc_real pf ff fi unit;
  K_contents := P_contents_real pf ff fi unit;
  K_li := P_li_real;
  K_ceq := eq; K_wf_color := wf_color_real;
  K_lc_entry_wf := fun e => name_valid (fst e) = true;
  K_wf_key := fun _ => True; K_wf_pv := wf_pv_real; K_lower := lw |}.

(** the same four codecs as an instance of the reduced record of Model/FontReal.v *)
Definition files4 : codecs4 := {|
  K4_content := node; K4_opts := unit; K4_color := color;
  K4_lib := P_lib_real; K4_groups := P_groups_real; K4_kerning := P_kerning_real; K4_li := P_li_real;
  K4_ceq := eq; K4_wf_color := wf_color_real;
  K4_wf_key := fun _ => True; K4_wf_pv := wf_pv_real; K4_lower := lw |}.

End Files.

(** What the lib / kerning / layerinfo readers do NOT guarantee, said of the files of one tree:
    - the <real>s of lib.plist and of a layer lib are finite ([f64::from_str] reads inf and NaN);
    - the numbers of kerning.plist are finite, in canonical form, and not -0.0;
    - a layer colour is a fixed point of the three-decimal rendering.
    Everything else those readers return lies in their writers' domains (Proofs/PlistReadP.v,
    Proofs/FontRealFilesP.v). *)
Definition input_numbers_ok pf ff ff3 fi fh to_bits of_bits lw
  (t : tree (real_sig pf ff ff3 fi fh (all_files pf ff ff3 fi to_bits of_bits lw))) : Prop :=
  (forall n d, t_lib _ t = Some (RBase _ n) -> plist_value pf n = Some (PDict d) ->
               reals_finite (PDict d) = true) /\
  (forall n k, t_kerning _ t = Some (RBase _ n) -> obind (plist_value pf n) (pv_kerning to_bits) = Some k ->
               Forall (fun e => Forall (fun p => kn_wf of_bits (snd p)) (snd e)) k) /\
  (forall dn dir n c ol, alookup dn (t_dirs _ t) = Some dir -> ld_info _ dir = Some (RBase _ n) ->
               obind (plist_value pf n) (pv_li pf) = Some (c, ol) ->
               (forall x, c = Some x -> color_fixed pf ff3 x) /\
               (forall l, ol = Some l -> reals_finite (PDict l) = true)).

(** sample values of the four domains *)
Definition lib_sample : dict :=
  [([98], PDict [([122], PInt 1); ([97], PArr [PDict [([121], PBool true); ([120], PStr [104])]])]);
   ([97], PReal (FFin false 27 (-1)))].
Definition groups_sample : GR.groups := [([65], [[97]; [98]]); ([66], [])].
