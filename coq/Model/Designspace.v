(** Model of norad's designspace documents (src/designspace.rs) and of their XML form as the
    serde derives + quick-xml's serde layer + src/serde_xml_plist.rs write and read it.

    [ds_encode : doc -> node] mirrors Serialize: field order, renames, [@]-attributes,
    [skip_serializing_if], the list wrappers of [serde_from_field!], the plist-in-XML glue.
    [ds_decode : node -> option doc] mirrors Deserialize: required / [default] / [Option] fields,
    unknown attributes and elements ignored, one run per list field, text trimmed of XML white
    space, the [dict]/[array] visitors of serde_xml_plist.rs.  [None] = DesignSpaceLoadError.

    Library behaviour (L1) is not modelled; it enters as Section variables: how [f32] and [f64]
    print ([Display]) and parse ([str::parse]), plist dates ([to_xml_format]/[from_xml_format]),
    base64.  Definitions only. *)
Require Export Norad.Model.DsXml.
From Coq Require Import DecimalString Decimal DecimalZ DecimalN.
Open Scope string_scope.

(** * Integers ([plist::Integer]: -2^63 .. 2^64-1), printed in decimal, read by [IntWrapper] *)
Definition int_min : Z := (- 9223372036854775808)%Z.
Definition int_max : Z := 18446744073709551615%Z.
Definition int_ok (z : Z) : bool := ((int_min <=? z) && (z <=? int_max))%Z.

Definition print_int (z : Z) : string := NilZero.string_of_int (Z.to_int z).

Definition dec_digits (s : string) : option Z :=
  match NilZero.uint_of_string s with
  | Some u => Some (Z.of_N (N.of_uint u))
  | None => None
  end.
Definition plus_c : ascii := "+"%char.
Definition minus_c : ascii := "-"%char.
(** [str::parse::<i64>]: optional sign, at least one digit, in range *)
Definition parse_i64 (s : string) : option Z :=
  let r := match s with
           | String c t => if Ascii.eqb c plus_c then dec_digits t
                           else if Ascii.eqb c minus_c then option_map Z.opp (dec_digits t)
                           else dec_digits s
           | EmptyString => None
           end in
  match r with
  | Some z => if ((int_min <=? z) && (z <? 9223372036854775808))%Z then Some z else None
  | None => None
  end.
(** [str::parse::<u64>]: optional plus sign, at least one digit, in range *)
Definition parse_u64 (s : string) : option Z :=
  let r := match s with
           | String c t => if Ascii.eqb c plus_c then dec_digits t else dec_digits s
           | EmptyString => None
           end in
  match r with
  | Some z => if (z <=? int_max)%Z then Some z else None
  | None => None
  end.
(** hexadecimal digits, for the NetBSD [0x] dialect *)
Definition hex_val (c : ascii) : option Z :=
  let n := Z.of_N (N_of_ascii c) in
  if ((48 <=? n) && (n <=? 57))%Z then Some (n - 48)%Z
  else if ((65 <=? n) && (n <=? 70))%Z then Some (n - 55)%Z
  else if ((97 <=? n) && (n <=? 102))%Z then Some (n - 87)%Z
  else None.
Fixpoint hex_digits (acc : Z) (s : string) : option Z :=
  match s with
  | EmptyString => Some acc
  | String c r => match hex_val c with
                  | Some v => hex_digits (16 * acc + v)%Z r
                  | None => None
                  end
  end.
(** [u64::from_str_radix(s, 16)] *)
Definition parse_hex_u64 (s : string) : option Z :=
  let body := match s with
              | String c t => if Ascii.eqb c plus_c then t else s
              | EmptyString => s
              end in
  match body with
  | EmptyString => None
  | _ => match hex_digits 0 body with
         | Some z => if (z <=? int_max)%Z then Some z else None
         | None => None
         end
  end.
(** [trim_start_matches("0x")]: every leading repetition is removed (fuel = length) *)
Fixpoint strip_0x (fuel : nat) (s : string) : string :=
  match fuel with
  | O => s
  | S f => match s with
           | String a (String b r) =>
               if Ascii.eqb a "0"%char && Ascii.eqb b "x"%char then strip_0x f r else s
           | _ => s
           end
  end.
Definition starts_0x (s : string) : bool :=
  match s with
  | String a (String b _) => Ascii.eqb a "0"%char && Ascii.eqb b "x"%char
  | _ => false
  end.
(** [IntegerVisitor::visit_str] of serde_xml_plist.rs *)
Definition parse_int (s : string) : option Z :=
  if starts_0x s then parse_hex_u64 (strip_0x (String.length s) s)
  else match parse_i64 s with
       | Some z => Some z
       | None => parse_u64 s
       end.

(** * [Name] (src/name.rs [is_valid]): non-empty, no C0 / DEL / C1 control character.
    On UTF-8 bytes: no byte below 32, no 127, no pair C2 80..9F. *)
Fixpoint no_ctl (s : string) : bool :=
  match s with
  | EmptyString => true
  | String c r =>
      let n := N_of_ascii c in
      negb (n <? 32)%N && negb (N.eqb n 127) &&
      match r with
      | String c2 _ => negb (N.eqb n 194 && (128 <=? N_of_ascii c2)%N && (N_of_ascii c2 <=? 159)%N)
      | EmptyString => true
      end && no_ctl r
  end.
Definition name_valid (s : string) : bool :=
  match s with EmptyString => false | _ => no_ctl s end.

Definition opt_attr (k : string) (o : option string) : list (string * string) :=
  match o with Some v => [(k, v)] | None => [] end.
Definition bind {A B} (o : option A) (f : A -> option B) : option B :=
  match o with Some a => f a | None => None end.
Notation "'olet' x ':=' e ; f" := (bind e (fun x => f))
  (at level 200, x name, e at level 100, f at level 200, right associativity).

(** ** L1: library behaviour, not modelled.  One record of types and functions; the theorems
    are stated for every such record that satisfies [l1_ok] (below). *)
Record l1 : Type := {
  l_F32 : Type;                                  (* f32 values, all NaNs identified *)
  l_f32_print : l_F32 -> string;                 (* <f32 as Display>::fmt *)
  l_f32_parse : string -> option l_F32;          (* str::parse::<f32> *)
  l_F64 : Type;
  l_f64_print : l_F64 -> string;
  l_f64_parse : string -> option l_F64;
  l_DATE : Type;                                 (* plist::Date within the years 0000..9999 *)
  l_date_print : l_DATE -> string;               (* Date::to_xml_format *)
  l_date_parse : string -> option l_DATE;        (* Date::from_xml_format *)
  l_b64_enc : string -> string;                  (* base64 STANDARD encode (bytes -> text) *)
  l_b64_dec : string -> option string            (* base64 STANDARD decode *)
}.

Section Ds.
  Variable L : l1.
  Local Notation F32 := (l_F32 L).
  Local Notation f32_print := (l_f32_print L).
  Local Notation f32_parse := (l_f32_parse L).
  Local Notation F64 := (l_F64 L).
  Local Notation f64_print := (l_f64_print L).
  Local Notation f64_parse := (l_f64_parse L).
  Local Notation DATE := (l_DATE L).
  Local Notation date_print := (l_date_print L).
  Local Notation date_parse := (l_date_parse L).
  Local Notation b64_enc := (l_b64_enc L).
  Local Notation b64_dec := (l_b64_dec L).

  (** ** The document type *)
  (** plist::Value without Uid (which the XML form cannot express and [save] refuses);
      a dictionary is insertion-ordered with unique keys *)
  Inductive pv : Type :=
  | PStr (s : string)
  | PInt (z : Z)
  | PReal (r : F64)
  | PBool (b : bool)
  | PData (d : string)
  | PDate (t : DATE)
  | PArr (l : list pv)
  | PDict (l : list (string * pv)).
  Definition dict := list (string * pv).

  Record mapping := { m_input : F32; m_output : F32 }.
  Record axis := {
    ax_name : string; ax_tag : string; ax_default : F32; ax_hidden : bool;
    ax_minimum : option F32; ax_maximum : option F32;
    ax_values : option (list F32); ax_map : option (list mapping) }.
  Inductive processing := PFirst | PLast.
  Record condition := { c_name : string; c_minimum : option F32; c_maximum : option F32 }.
  Definition condset := list condition.        (* ConditionSet { conditions } *)
  Record subst := { sub_name : string; sub_with : string }.   (* both are [Name]s *)
  Record rule := { r_name : option string; r_condsets : list condset; r_subs : list subst }.
  Record rules := { rs_processing : processing; rs_rules : list rule }.
  Record dimension := {
    d_name : string; d_uservalue : option F32; d_xvalue : option F32; d_yvalue : option F32 }.
  Record source := {
    s_familyname : option string; s_stylename : option string; s_name : option string;
    s_filename : string; s_layer : option string; s_location : list dimension }.
  Record instance := {
    i_familyname : option string; i_stylename : option string; i_name : option string;
    i_filename : option string; i_postscriptfontname : option string;
    i_stylemapfamilyname : option string; i_stylemapstylename : option string;
    i_location : list dimension; i_lib : dict }.
  Record doc := {
    ds_format : F32; ds_axes : list axis; ds_rules : rules; ds_sources : list source;
    ds_instances : list instance; ds_lib : dict }.

  (** ** Writing (Serialize) *)
  Definition f32_attr (k : string) (x : F32) : list (string * string) := [(k, f32_print x)].
  Definition f32_opt_attr (k : string) (o : option F32) : list (string * string) :=
    opt_attr k (option_map f32_print o).

  (** serde_xml_plist.rs [ser]: a value under its tag *)
  Fixpoint enc_pv (v : pv) : node :=
    match v with
    | PStr s => Elem "string" [] (text_kids s)
    | PInt z => Elem "integer" [] (text_kids (print_int z))
    | PReal r => Elem "real" [] (text_kids (f64_print r))
    | PBool true => Elem "true" [] []
    | PBool false => Elem "false" [] []
    | PData d => Elem "data" [] (text_kids (b64_enc d))
    | PDate t => Elem "date" [] (text_kids (date_print t))
    | PArr l =>
        Elem "array" []
             ((fix go (l : list pv) : list node :=
                 match l with [] => [] | x :: r => enc_pv x :: go r end) l)
    | PDict l =>
        Elem "dict" []
             ((fix go (l : list (string * pv)) : list node :=
                 match l with
                 | [] => []
                 | (k, x) :: r => Elem "key" [] (text_kids k) :: enc_pv x :: go r
                 end) l)
    end.
  (** [#[serde(with = "serde_plist")] lib]: the dictionary under one [dict] element *)
  Definition enc_lib (l : dict) : node := Elem "lib" [] [enc_pv (PDict l)].
  Definition enc_lib_field (l : dict) : list node :=      (* skip_serializing_if is_empty *)
    match l with [] => [] | _ => [enc_lib l] end.

  Definition enc_mapping (m : mapping) : node :=
    Elem "map" (f32_attr "input" (m_input m) ++ f32_attr "output" (m_output m)) [].
  Definition enc_axis (a : axis) : node :=
    Elem "axis"
         ([("name", ax_name a); ("tag", ax_tag a)] ++ f32_attr "default" (ax_default a)
          ++ (if ax_hidden a then [("hidden", "true")] else [])
          ++ f32_opt_attr "minimum" (ax_minimum a)
          ++ f32_opt_attr "maximum" (ax_maximum a)
          ++ opt_attr "values" (option_map (fun l => join_sp (map f32_print l)) (ax_values a)))
         (match ax_map a with Some l => map enc_mapping l | None => [] end).
  Definition enc_condition (c : condition) : node :=
    Elem "condition"
         ([("name", c_name c)] ++ f32_opt_attr "minimum" (c_minimum c)
          ++ f32_opt_attr "maximum" (c_maximum c)) [].
  Definition enc_condset (cs : condset) : node := Elem "conditionset" [] (map enc_condition cs).
  Definition enc_sub (s : subst) : node :=
    Elem "sub" [("name", sub_name s); ("with", sub_with s)] [].
  Definition enc_rule (r : rule) : node :=
    Elem "rule" (opt_attr "name" (r_name r))
         (map enc_condset (r_condsets r) ++ map enc_sub (r_subs r)).
  Definition processing_str (p : processing) : string :=
    match p with PFirst => "first" | PLast => "last" end.
  Definition enc_rules (r : rules) : node :=
    Elem "rules" [("processing", processing_str (rs_processing r))] (map enc_rule (rs_rules r)).
  Definition enc_dimension (d : dimension) : node :=
    Elem "dimension"
         ([("name", d_name d)] ++ f32_opt_attr "uservalue" (d_uservalue d)
          ++ f32_opt_attr "xvalue" (d_xvalue d) ++ f32_opt_attr "yvalue" (d_yvalue d)) [].
  Definition enc_location (l : list dimension) : node := Elem "location" [] (map enc_dimension l).
  Definition enc_source (s : source) : node :=
    Elem "source"
         (opt_attr "familyname" (s_familyname s) ++ opt_attr "stylename" (s_stylename s)
          ++ opt_attr "name" (s_name s) ++ [("filename", s_filename s)]
          ++ opt_attr "layer" (s_layer s))
         [enc_location (s_location s)].
  Definition enc_instance (i : instance) : node :=
    Elem "instance"
         (opt_attr "familyname" (i_familyname i) ++ opt_attr "stylename" (i_stylename i)
          ++ opt_attr "name" (i_name i) ++ opt_attr "filename" (i_filename i)
          ++ opt_attr "postscriptfontname" (i_postscriptfontname i)
          ++ opt_attr "stylemapfamilyname" (i_stylemapfamilyname i)
          ++ opt_attr "stylemapstylename" (i_stylemapstylename i))
         (enc_location (i_location i) :: enc_lib_field (i_lib i)).

  (** a [Vec] behind [serde_from_field!] and [skip_serializing_if = "Vec::is_empty"] *)
  Definition wrapped {A} (outer : string) (f : A -> node) (l : list A) : list node :=
    match l with [] => [] | _ => [Elem outer [] (map f l)] end.

  Definition ds_encode (d : doc) : node :=
    Elem "designspace" (f32_attr "format" (ds_format d))
         (wrapped "axes" enc_axis (ds_axes d)
          ++ (match rs_rules (ds_rules d) with [] => [] | _ => [enc_rules (ds_rules d)] end)
          ++ wrapped "sources" enc_source (ds_sources d)
          ++ wrapped "instances" enc_instance (ds_instances d)
          ++ enc_lib_field (ds_lib d)).

  (** ** Reading (Deserialize) *)
  Definition elems (kids : list node) : list node :=
    filter (fun n => match n with Elem _ _ _ => true | Text _ => false end) kids.

  Definition req_attr (k : string) (a : list (string * string)) : option string := attr k a.
  Definition req_f32 (k : string) (a : list (string * string)) : option F32 :=
    olet s := attr k a; f32_parse s.
  (** an [Option<f32>] attribute: absent → None; present → must parse *)
  Definition opt_f32 (k : string) (a : list (string * string)) : option (option F32) :=
    match attr k a with
    | None => Some None
    | Some s => option_map Some (f32_parse s)
    end.

  (** plist dictionary insertion ([Dictionary::insert]): a repeated key keeps its first
      position and takes the new value *)
  Fixpoint dict_insert (k : string) (v : pv) (l : dict) : dict :=
    match l with
    | [] => [(k, v)]
    | (k', v') :: r => if String.eqb k k' then (k', v) :: r else (k', v') :: dict_insert k v r
    end.
  Definition dict_of_pairs (l : list (string * pv)) : dict :=
    fold_left (fun acc kv => dict_insert (fst kv) (snd kv) acc) l [].

  (** What [load (save d)] returns for a well-formed [d] (theorem [decode_encode_gen]): every lib
      string and key trimmed of XML white space, every dictionary rebuilt by insertion (keys that
      collide after trimming collapse). *)
  Fixpoint trim_pv (v : pv) : pv :=
    match v with
    | PStr s => PStr (trim s)
    | PArr l => PArr ((fix go (l : list pv) : list pv :=
                         match l with [] => [] | x :: r => trim_pv x :: go r end) l)
    | PDict l => PDict (dict_of_pairs
                          ((fix go (l : list (string * pv)) : list (string * pv) :=
                              match l with [] => [] | (k, x) :: r => (trim k, trim_pv x) :: go r end) l))
    | _ => v
    end.
  Definition trim_dict (l : dict) : dict :=
    match trim_pv (PDict l) with PDict l' => l' | _ => l end.
  Definition trim_instance (i : instance) : instance :=
    {| i_familyname := i_familyname i; i_stylename := i_stylename i; i_name := i_name i;
       i_filename := i_filename i; i_postscriptfontname := i_postscriptfontname i;
       i_stylemapfamilyname := i_stylemapfamilyname i; i_stylemapstylename := i_stylemapstylename i;
       i_location := i_location i; i_lib := trim_dict (i_lib i) |}.
  Definition ds_trim (d : doc) : doc :=
    {| ds_format := ds_format d; ds_axes := ds_axes d; ds_rules := ds_rules d;
       ds_sources := ds_sources d; ds_instances := map trim_instance (ds_instances d);
       ds_lib := trim_dict (ds_lib d) |}.

  Definition tag_is (a b : string) : bool := String.eqb a b.

  (** serde_xml_plist.rs [read_xml_value] / [DictWrapper] / [ArrayWrapper] on one element.
      Attributes on [dict] and [array] reach the visitors as map keys and are refused there;
      on the leaf tags they are ignored by the string reader. *)
  Fixpoint dec_pv (n : node) : option pv :=
    match n with
    | Text _ => None
    | Elem tag attrs kids =>
        if tag_is tag "string" then option_map PStr (kids_text kids)
        else if tag_is tag "integer" then olet s := kids_text kids; option_map PInt (parse_int s)
        else if tag_is tag "real" then olet s := kids_text kids; option_map PReal (f64_parse s)
        else if tag_is tag "true" then Some (PBool true)
        else if tag_is tag "false" then Some (PBool false)
        else if tag_is tag "data" then olet s := kids_text kids; option_map PData (b64_dec s)
        else if tag_is tag "date" then olet s := kids_text kids; option_map PDate (date_parse s)
        else if tag_is tag "array" then
          match attrs with
          | [] => option_map PArr
                    ((fix go (l : list node) : option (list pv) :=
                        match l with
                        | [] => Some []
                        | k :: r => match dec_pv k, go r with
                                    | Some v, Some vs => Some (v :: vs)
                                    | _, _ => None
                                    end
                        end) kids)
          | _ => None
          end
        else if tag_is tag "dict" then
          match attrs with
          | [] => option_map (fun ps => PDict (dict_of_pairs ps))
                    ((fix go (l : list node) : option (list (string * pv)) :=
                        match l with
                        | [] => Some []
                        | Elem ktag _ kk :: r1 =>
                            if tag_is ktag "key" then
                              match r1 with
                              | v :: r => match kids_text kk, dec_pv v, go r with
                                          | Some k, Some x, Some ps => Some ((k, x) :: ps)
                                          | _, _, _ => None
                                          end
                              | [] => None          (* "expected value" *)
                              end
                            else None
                        | Text _ :: _ => None
                        end) kids)
          | _ => None
          end
        else None
    end.

  (** [serde_xml_plist::deserialize]: struct DictHelper { dict } *)
  Definition dec_lib (n : node) : option dict :=
    match n with
    | Elem _ _ kids =>
        match field_one "dict" (elems kids) with
        | Some (Some d) => match dec_pv d with Some (PDict l) => Some l | _ => None end
        | _ => None
        end
    | Text _ => None
    end.
  (** [#[serde(default, with = "serde_plist")] lib] *)
  Definition dec_lib_field (kids : list node) : option dict :=
    match field_one "lib" kids with
    | Some None => Some []
    | Some (Some n) => dec_lib n
    | None => None
    end.

  Definition dec_mapping (n : node) : option mapping :=
    match n with
    | Elem _ a _ => olet i := req_f32 "input" a; olet o := req_f32 "output" a;
                    Some {| m_input := i; m_output := o |}
    | Text _ => None
    end.
  Definition dec_axis (n : node) : option axis :=
    match n with
    | Elem _ a kids =>
        olet name := req_attr "name" a;
        olet tag := req_attr "tag" a;
        olet dflt := req_f32 "default" a;
        olet hidden := match attr "hidden" a with None => Some false | Some s => parse_bool s end;
        olet mn := opt_f32 "minimum" a;
        olet mx := opt_f32 "maximum" a;
        olet vals := match attr "values" a with
                   | None => Some None
                   | Some s => option_map Some (all_opt (map f32_parse (split_sp s)))
                   end;
        olet maps := field_list "map" (elems kids);
        olet mp := match maps with
                 | [] => Some None
                 | _ => option_map Some (all_opt (map dec_mapping maps))
                 end;
        Some {| ax_name := name; ax_tag := tag; ax_default := dflt; ax_hidden := hidden;
                ax_minimum := mn; ax_maximum := mx; ax_values := vals; ax_map := mp |}
    | Text _ => None
    end.
  Definition dec_condition (n : node) : option condition :=
    match n with
    | Elem _ a _ =>
        olet name := req_attr "name" a;
        olet mn := opt_f32 "minimum" a;
        olet mx := opt_f32 "maximum" a;
        Some {| c_name := name; c_minimum := mn; c_maximum := mx |}
    | Text _ => None
    end.
  Definition dec_condset (n : node) : option condset :=
    match n with
    | Elem _ _ kids => olet cs := field_list "condition" (elems kids); all_opt (map dec_condition cs)
    | Text _ => None
    end.
  Definition dec_sub (n : node) : option subst :=
    match n with
    | Elem _ a _ =>
        olet name := req_attr "name" a;
        olet w := req_attr "with" a;
        if name_valid name && name_valid w then Some {| sub_name := name; sub_with := w |}
        else None
    | Text _ => None
    end.
  (** a [Vec] field without [default]: no element of that name → "missing field" *)
  Definition req_list (k : string) (kids : list node) : option (list node) :=
    match field_list k kids with
    | Some [] => None
    | r => r
    end.
  Definition dec_rule (n : node) : option rule :=
    match n with
    | Elem _ a kids =>
        olet css := req_list "conditionset" (elems kids);
        olet subs := req_list "sub" (elems kids);
        olet css' := all_opt (map dec_condset css);
        olet subs' := all_opt (map dec_sub subs);
        Some {| r_name := attr "name" a; r_condsets := css'; r_subs := subs' |}
    | Text _ => None
    end.
  Definition parse_processing (s : string) : option processing :=
    if String.eqb s "first" then Some PFirst
    else if String.eqb s "last" then Some PLast else None.
  Definition dec_rules (n : node) : option rules :=
    match n with
    | Elem _ a kids =>
        olet p := match attr "processing" a with None => Some PFirst | Some s => parse_processing s end;
        olet rs := field_list "rule" (elems kids);
        olet rs' := all_opt (map dec_rule rs);
        Some {| rs_processing := p; rs_rules := rs' |}
    | Text _ => None
    end.
  Definition dec_dimension (n : node) : option dimension :=
    match n with
    | Elem _ a _ =>
        olet name := req_attr "name" a;
        olet u := opt_f32 "uservalue" a;
        olet x := opt_f32 "xvalue" a;
        olet y := opt_f32 "yvalue" a;
        Some {| d_name := name; d_uservalue := u; d_xvalue := x; d_yvalue := y |}
    | Text _ => None
    end.
  (** a [serde_from_field!] wrapper: struct Helper { inner: Vec<_> } without default *)
  Definition dec_wrapped {A} (inner : string) (f : node -> option A) (n : node) : option (list A) :=
    match n with
    | Elem _ _ kids => olet l := req_list inner (elems kids); all_opt (map f l)
    | Text _ => None
    end.
  Definition dec_location_field (kids : list node) : option (list dimension) :=
    match field_one "location" kids with
    | Some (Some n) => dec_wrapped "dimension" dec_dimension n
    | _ => None
    end.
  Definition dec_source (n : node) : option source :=
    match n with
    | Elem _ a kids =>
        olet fname := req_attr "filename" a;
        olet loc := dec_location_field (elems kids);
        Some {| s_familyname := attr "familyname" a; s_stylename := attr "stylename" a;
                s_name := attr "name" a; s_filename := fname; s_layer := attr "layer" a;
                s_location := loc |}
    | Text _ => None
    end.
  Definition dec_instance (n : node) : option instance :=
    match n with
    | Elem _ a kids =>
        olet loc := dec_location_field (elems kids);
        olet lib := dec_lib_field (elems kids);
        Some {| i_familyname := attr "familyname" a; i_stylename := attr "stylename" a;
                i_name := attr "name" a; i_filename := attr "filename" a;
                i_postscriptfontname := attr "postscriptfontname" a;
                i_stylemapfamilyname := attr "stylemapfamilyname" a;
                i_stylemapstylename := attr "stylemapstylename" a;
                i_location := loc; i_lib := lib |}
    | Text _ => None
    end.

  (** the name of the root element is not looked at by quick-xml *)
  Definition ds_decode (n : node) : option doc :=
    match n with
    | Elem _ a kids0 =>
        let kids := elems kids0 in
        olet fmt := req_f32 "format" a;
        olet axes := match field_one "axes" kids with
                   | Some (Some n) => dec_wrapped "axis" dec_axis n
                   | _ => None
                   end;
        olet rls := match field_one "rules" kids with
                  | Some None => Some {| rs_processing := PFirst; rs_rules := [] |}
                  | Some (Some n) => dec_rules n
                  | None => None
                  end;
        olet srcs := match field_one "sources" kids with
                   | Some (Some n) => dec_wrapped "source" dec_source n
                   | _ => None
                   end;
        olet insts := match field_one "instances" kids with
                    | Some None => Some []
                    | Some (Some n) => dec_wrapped "instance" dec_instance n
                    | None => None
                    end;
        olet lib := dec_lib_field kids;
        Some {| ds_format := fmt; ds_axes := axes; ds_rules := rls; ds_sources := srcs;
                ds_instances := insts; ds_lib := lib |}
    | Text _ => None
    end.

  (** ** Well-formedness *)
  (** type invariants of the Rust values: dictionary keys unique, integers in range *)
  Fixpoint keys_nodup (l : list string) : bool :=
    match l with
    | [] => true
    | k :: r => negb (existsb (String.eqb k) r) && keys_nodup r
    end.
  Fixpoint pv_ok (v : pv) : bool :=
    match v with
    | PInt z => int_ok z
    | PArr l => (fix go (l : list pv) : bool :=
                   match l with [] => true | x :: r => pv_ok x && go r end) l
    | PDict l => keys_nodup (map fst l) &&
                 (fix go (l : list (string * pv)) : bool :=
                    match l with [] => true | (_, x) :: r => pv_ok x && go r end) l
    | _ => true
    end.
  Definition dict_ok (l : dict) : bool := pv_ok (PDict l).

  Definition nonempty {A} (l : list A) : bool := match l with [] => false | _ => true end.
  Definition rule_wf (r : rule) : bool :=
    nonempty (r_condsets r) && nonempty (r_subs r) &&
    forallb (fun s => name_valid (sub_name s) && name_valid (sub_with s)) (r_subs r).
  Definition axis_wf (a : axis) : bool :=
    match ax_map a with Some [] => false | _ => true end.      (* representational fact 1 *)
  Definition rules_wf (r : rules) : bool :=
    forallb rule_wf (rs_rules r) &&
    match rs_rules r, rs_processing r with [], PLast => false | _, _ => true end.  (* fact 2 *)
  (** The property's well-formedness (at least one axis and one source, non-empty locations,
      rules with condition sets and substitutions), the type invariants, and the two facts the
      file format cannot express: [map] is [None] or non-empty; an empty rule list comes with
      the default processing mode. *)
  Definition ds_wfb (d : doc) : bool :=
    nonempty (ds_axes d) && forallb axis_wf (ds_axes d) &&
    rules_wf (ds_rules d) &&
    nonempty (ds_sources d) && forallb (fun s => nonempty (s_location s)) (ds_sources d) &&
    forallb (fun i => nonempty (i_location i) && dict_ok (i_lib i)) (ds_instances d) &&
    dict_ok (ds_lib d).
  Definition ds_wf (d : doc) : Prop := ds_wfb d = true.

  (** ** The known class (F15, remaining half): a lib string or key that starts or ends with
      XML white space — quick-xml's deserializer trims element text *)
  Fixpoint pv_edge_ws (v : pv) : bool :=
    match v with
    | PStr s => edge_ws s
    | PArr l => (fix go (l : list pv) : bool :=
                   match l with [] => false | x :: r => pv_edge_ws x || go r end) l
    | PDict l => (fix go (l : list (string * pv)) : bool :=
                    match l with [] => false | (k, x) :: r => edge_ws k || pv_edge_ws x || go r end) l
    | _ => false
    end.
  Definition dict_edge_ws (l : dict) : bool := pv_edge_ws (PDict l).
  Definition known_class_b (d : doc) : bool :=
    dict_edge_ws (ds_lib d) || existsb (fun i => dict_edge_ws (i_lib i)) (ds_instances d).
  Definition KnownClass_C18 (d : doc) : Prop := known_class_b d = true.

  (** ** The designspace specification's writer (fontTools designspaceLib, XML reference):
      written from the element tables of the specification, attributes in the order the
      specification lists them.  Equal to [ds_encode] up to attribute order. *)
  Definition spec_attr_str (k : string) (v : string) := [(k, v)].
  Definition spec_attr_num (k : string) (x : F32) := [(k, f32_print x)].
  Definition spec_opt {A B} (f : A -> list B) (o : option A) : list B :=
    match o with Some v => f v | None => [] end.

  (** plist XML (Apple DTD): dict = (key, value)*, array = value*, leaf tags *)
  Fixpoint spec_plist (v : pv) : node :=
    match v with
    | PDict l => Elem "dict" []
                   ((fix go (l : list (string * pv)) : list node :=
                       match l with
                       | [] => []
                       | (k, x) :: r => Elem "key" [] (text_kids k) :: spec_plist x :: go r
                       end) l)
    | PArr l => Elem "array" []
                  ((fix go (l : list pv) : list node :=
                      match l with [] => [] | x :: r => spec_plist x :: go r end) l)
    | PStr s => Elem "string" [] (text_kids s)
    | PInt z => Elem "integer" [] (text_kids (print_int z))
    | PReal r => Elem "real" [] (text_kids (f64_print r))
    | PBool b => Elem (if b then "true" else "false") [] []
    | PData d => Elem "data" [] (text_kids (b64_enc d))
    | PDate t => Elem "date" [] (text_kids (date_print t))
    end.
  Definition spec_lib (l : dict) : list node :=
    match l with [] => [] | _ => [Elem "lib" [] [spec_plist (PDict l)]] end.
  (** location element: dimension (name, xvalue, uservalue, yvalue) *)
  Definition spec_dimension (d : dimension) : node :=
    Elem "dimension"
         (spec_attr_str "name" (d_name d) ++ spec_opt (spec_attr_num "xvalue") (d_xvalue d)
          ++ spec_opt (spec_attr_num "uservalue") (d_uservalue d)
          ++ spec_opt (spec_attr_num "yvalue") (d_yvalue d)) [].
  Definition spec_location (l : list dimension) : node :=
    Elem "location" [] (map spec_dimension l).
  (** axis element: name, tag, minimum, maximum, default, hidden, values; map (input, output) *)
  Definition spec_axis (a : axis) : node :=
    Elem "axis"
         (spec_attr_str "tag" (ax_tag a) ++ spec_attr_str "name" (ax_name a)
          ++ spec_opt (spec_attr_num "minimum") (ax_minimum a)
          ++ spec_opt (spec_attr_num "maximum") (ax_maximum a)
          ++ spec_opt (fun l => [("values", join_sp (map f32_print l))]) (ax_values a)
          ++ spec_attr_num "default" (ax_default a)
          ++ (if ax_hidden a then [("hidden", "true")] else []))
         (spec_opt (map (fun m => Elem "map" (spec_attr_num "input" (m_input m)
                                               ++ spec_attr_num "output" (m_output m)) []))
                   (ax_map a)).
  (** rules (processing) / rule (name) / conditionset / condition (name, minimum, maximum) /
      sub (name, with) *)
  Definition spec_rule (r : rule) : node :=
    Elem "rule" (spec_opt (spec_attr_str "name") (r_name r))
         (map (fun cs => Elem "conditionset" []
                 (map (fun c => Elem "condition"
                         (spec_attr_str "name" (c_name c)
                          ++ spec_opt (spec_attr_num "minimum") (c_minimum c)
                          ++ spec_opt (spec_attr_num "maximum") (c_maximum c)) []) cs))
              (r_condsets r)
          ++ map (fun s => Elem "sub" (spec_attr_str "name" (sub_name s)
                                        ++ spec_attr_str "with" (sub_with s)) [])
                 (r_subs r)).
  Definition spec_rules (r : rules) : list node :=
    match rs_rules r with
    | [] => []
    | l => [Elem "rules"
                 (spec_attr_str "processing"
                    (match rs_processing r with PFirst => "first" | PLast => "last" end))
                 (map spec_rule l)]
    end.
  (** source element: filename, name, familyname, stylename, layer; location *)
  Definition spec_source (s : source) : node :=
    Elem "source"
         (spec_attr_str "filename" (s_filename s) ++ spec_opt (spec_attr_str "name") (s_name s)
          ++ spec_opt (spec_attr_str "familyname") (s_familyname s)
          ++ spec_opt (spec_attr_str "stylename") (s_stylename s)
          ++ spec_opt (spec_attr_str "layer") (s_layer s))
         [spec_location (s_location s)].
  (** instance element: name, familyname, stylename, postscriptfontname, stylemapfamilyname,
      stylemapstylename, filename; location, lib *)
  Definition spec_instance (i : instance) : node :=
    Elem "instance"
         (spec_opt (spec_attr_str "name") (i_name i)
          ++ spec_opt (spec_attr_str "familyname") (i_familyname i)
          ++ spec_opt (spec_attr_str "stylename") (i_stylename i)
          ++ spec_opt (spec_attr_str "postscriptfontname") (i_postscriptfontname i)
          ++ spec_opt (spec_attr_str "stylemapfamilyname") (i_stylemapfamilyname i)
          ++ spec_opt (spec_attr_str "stylemapstylename") (i_stylemapstylename i)
          ++ spec_opt (spec_attr_str "filename") (i_filename i))
         (spec_location (i_location i) :: spec_lib (i_lib i)).
  Definition spec_group {A} (outer : string) (f : A -> node) (l : list A) : list node :=
    match l with [] => [] | _ => [Elem outer [] (map f l)] end.
  (** designspace (format): axes, rules, sources, instances, lib — in that order *)
  Definition spec_ds_write (d : doc) : node :=
    Elem "designspace" (spec_attr_num "format" (ds_format d))
         (spec_group "axes" spec_axis (ds_axes d)
          ++ spec_rules (ds_rules d)
          ++ spec_group "sources" spec_source (ds_sources d)
          ++ spec_group "instances" spec_instance (ds_instances d)
          ++ spec_lib (ds_lib d)).
End Ds.

(** The L1 hypotheses of the theorems: printing then parsing gives the value back; a printed
    f32 is a non-empty text without a blank (it is an item of a blank-separated list); the other
    printed texts do not start or end with XML white space (they are element text). *)
Definition l1_ok (L : l1) : Prop :=
  (forall x, l_f32_parse L (l_f32_print L x) = Some x) /\
  (forall x, token (l_f32_print L x)) /\
  (forall x, l_f64_parse L (l_f64_print L x) = Some x) /\
  (forall x, edge_ws (l_f64_print L x) = false) /\
  (forall x, l_date_parse L (l_date_print L x) = Some x) /\
  (forall x, edge_ws (l_date_print L x) = false) /\
  (forall x, l_b64_dec L (l_b64_enc L x) = Some x) /\
  (forall x, edge_ws (l_b64_enc L x) = false).

(** The serde vocabulary of src/designspace.rs as the model uses it: per Rust type, the XML
    name (struct-level rename; empty = none) and per field (Rust field, XML key, flags).
    Flags: d = [default], s = [skip_serializing_if], w = [with].  Regenerated from the source on
    every run and compared (Anchors/AnchorsOK_C18.v). *)
Definition ds_vocab : list (string * string * list (string * string * string)) :=
  [ ("DesignSpaceDocument", "designspace",
     [("format", "@format", ""); ("axes", "axes", "sw"); ("rules", "rules", "ds");
      ("sources", "sources", "sw"); ("instances", "instances", "dsw"); ("lib", "lib", "dsw")]);
    ("Axis", "axis",
     [("name", "@name", ""); ("tag", "@tag", ""); ("default", "@default", "");
      ("hidden", "@hidden", "ds"); ("minimum", "@minimum", "s"); ("maximum", "@maximum", "s");
      ("values", "@values", "s"); ("map", "map", "s")]);
    ("AxisMapping", "map", [("input", "@input", ""); ("output", "@output", "")]);
    ("Rules", "", [("processing", "@processing", "d"); ("rules", "rule", "d")]);
    ("Rule", "",
     [("name", "@name", "s"); ("condition_sets", "conditionset", ""); ("substitutions", "sub", "")]);
    ("Substitution", "", [("name", "@name", ""); ("with", "@with", "")]);
    ("ConditionSet", "", [("conditions", "condition", "d")]);
    ("Condition", "",
     [("name", "@name", ""); ("minimum", "@minimum", "ds"); ("maximum", "@maximum", "ds")]);
    ("Source", "source",
     [("familyname", "@familyname", "s"); ("stylename", "@stylename", "s"); ("name", "@name", "s");
      ("filename", "@filename", ""); ("layer", "@layer", "s"); ("location", "location", "w")]);
    ("Instance", "instance",
     [("familyname", "@familyname", "s"); ("stylename", "@stylename", "s"); ("name", "@name", "s");
      ("filename", "@filename", "s"); ("postscriptfontname", "@postscriptfontname", "s");
      ("stylemapfamilyname", "@stylemapfamilyname", "s");
      ("stylemapstylename", "@stylemapstylename", "s");
      ("location", "location", "w"); ("lib", "lib", "dsw")]);
    ("Dimension", "dimension",
     [("name", "@name", ""); ("uservalue", "@uservalue", "s"); ("xvalue", "@xvalue", "s");
      ("yvalue", "@yvalue", "s")]) ].
(** the list wrappers [serde_from_field!(module, inner element, type)] *)
Definition ds_wrappers : list (string * string) :=
  [("location", "dimension"); ("instances", "instance"); ("axes", "axis"); ("sources", "source")].
(** [RuleProcessing] with [rename_all = lowercase] *)
Definition ds_processing_names : list string := ["first"; "last"].
(** the tags of serde_xml_plist.rs: [FromStr for ValueKeyword], the key literal, and the
    tags [serialize_within] writes *)
Definition plist_read_tags : list string :=
  ["dict"; "array"; "integer"; "real"; "string"; "data"; "date"; "true"; "false"].
Definition plist_write_tags : list string :=
  ["array"; "dict"; "true"; "false"; "data"; "date"; "real"; "integer"; "string"].
Definition plist_key_tag : string := "key".
