(** The integer-or-float writers (src/kerning.rs, src/fontinfo.rs IntegerOrFloat and
    NonNegativeIntegerOrFloat) as far as the font-level properties need them.  Finite binary64
    values are rationals.  Since cf70ca2 the three writers write the integer [t] instead of [v]
    only when [v] is EXACTLY [t] (fract() == 0 / v == v.round(), inside the i32 range); every other
    value is written as a real.  (Before: when |v - t| <= 2^-52, which flushed 0 < |v| <= 2^-52 to 0
    and moved 1 + 2^-52 to 1 — the former classes flush_to_zero and near_integer_rounded, kept
    below as regression examples.)  Definitions only. *)
From Coq Require Export QArith Qabs.
Open Scope Q_scope.

Definition TOL : Q := 1 # 1000000000.            (* the properties' relative tolerance 1e-9 *)

(** |a - b| <= 1e-9 * max |a| |b| *)
Definition within (a b : Q) : Prop := Qabs (a - b) <= TOL * Qabs a \/ Qabs (a - b) <= TOL * Qabs b.

(** [v] may be written as the integer [t]: only when it is that integer *)
Definition written_as_integer (v : Q) (t : Z) : Prop := v == inject_Z t.
