(** The known-finding classes of the integer-or-float writers (src/kerning.rs:50-57,
    src/fontinfo.rs:1114-1167), as far as the font-level properties need them.  Finite binary64
    values are rationals; the three writers (kerning: |v - round v| < EPSILON, font info:
    |fract v| <= EPSILON, unitsPerEm: |fract v| < EPSILON, each with the i32 range test) write the
    integer [t] instead of [v] only when |v - t| <= 2^-52.  Definitions only. *)
From Coq Require Export QArith Qabs.
Open Scope Q_scope.

Definition EPS : Q := 1 # 4503599627370496.      (* f64::EPSILON = 2^-52 *)
Definition TOL : Q := 1 # 1000000000.            (* the properties' relative tolerance 1e-9 *)

(** |a - b| <= 1e-9 * max |a| |b| *)
Definition within (a b : Q) : Prop := Qabs (a - b) <= TOL * Qabs a \/ Qabs (a - b) <= TOL * Qabs b.

(** [v] may be written as the integer [t] *)
Definition written_as_integer (v : Q) (t : Z) : Prop := Qabs (v - inject_Z t) <= EPS.

(** class flush_to_zero (C01, C04, C05): a non-zero number written as 0 *)
Definition KnownClass_flush_to_zero (v : Q) (t : Z) : Prop := t = 0%Z /\ ~ v == 0.
(** class near_integer_rounded (C04 only: inside the tolerance, but not the same value) *)
Definition KnownClass_near_integer_rounded (v : Q) (t : Z) : Prop := t <> 0%Z /\ ~ v == inject_Z t.
