(** Font-level model of [Font::save_impl] / [Font::load_impl] (src/font.rs, src/layer.rs,
    [FontInfo::{dump,load}_object_libs] of src/fontinfo.rs) as a composition over an abstract tree
    of files, and the SPECIFICATION-side writer / reader [spec_write] / [spec_read] written from the
    UFO 3 specification over the same tree type.  Definitions only.

    What is concrete here is norad's OWN logic: which optional file is written when, the metainfo
    creator rule, the move of font-info guideline libs to lib.plist under [public.objectLibs] and
    back, CRLF normalisation of the feature text, layercontents / contents order, layerinfo.plist
    gating, missing optional file => default value, default layer = directory [glyphs] moved to
    the front, version forced to 3.

    What is abstract (a field of [sig]) is everything norad delegates or that another model owns:
    the per-part codecs [enc]/[dec] (plist crate, serde, quick-xml, the glif encoder/parser of
    Glif.v/GlifParse.v, the number writers of Num.v), plist dictionaries (order of keys is not
    observable: norad's own [PartialEq] ignores it, so [recursive_sort_plist_keys] is the
    identity at this level), the validators, the legacy (format 1/2) conversions.  Their laws
    are the record [sig_ok]; every theorem of Props/C01.v, C04.v, C05.v is stated for all
    [S : sig] with [sig_ok S] as an explicit hypothesis, and Run/FontRun.v exhibits an instance
    (so the laws are jointly satisfiable).

    The tree is structured by the UFO directory layout (one field per top-level file, a list of
    layer directories, two store directories); [paths_of] flattens it to the list of file paths
    using a table of file names ([norad_names] = the statics of the source, an anchor;
    [spec_names] = the names of the specification). *)
Require Export Norad.Model.Base.
From Coq Require Export String Ascii.
Open Scope N_scope.

Definition s (x : string) : str := map N_of_ascii (list_ascii_of_string x).
Definition path := list str.
Definition bytes := list N.

(* ------------------------------------------------------------------------------------------ *)
(** * File and key names *)

Record names : Type := {
  n_metainfo : str; n_fontinfo : str; n_lib : str; n_groups : str; n_kerning : str;
  n_features : str; n_layercontents : str; n_contents : str; n_layerinfo : str;
  n_glyphs_dir : str; n_data_dir : str; n_images_dir : str;
  n_object_libs : str; n_default_layer : str; n_creator : str }.

(** statics of src/font.rs:27-35, src/layer.rs:17-22, src/shared_types.rs:7 (anchored) *)
Definition norad_names : names := {|
  n_metainfo := s "metainfo.plist"; n_fontinfo := s "fontinfo.plist"; n_lib := s "lib.plist";
  n_groups := s "groups.plist"; n_kerning := s "kerning.plist"; n_features := s "features.fea";
  n_layercontents := s "layercontents.plist"; n_contents := s "contents.plist";
  n_layerinfo := s "layerinfo.plist"; n_glyphs_dir := s "glyphs"; n_data_dir := s "data";
  n_images_dir := s "images"; n_object_libs := s "public.objectLibs";
  n_default_layer := s "public.default"; n_creator := s "org.linebender.norad" |}.

(** the same table written from unifiedfontobject.org/versions/ufo3 (directory structure page;
    "public.objectLibs" from lib.plist; "public.default" from layercontents.plist).  The
    creator string is not fixed by the specification; the entry is norad's. *)
Definition spec_names : names := {|
  n_metainfo := s "metainfo.plist"; n_fontinfo := s "fontinfo.plist"; n_lib := s "lib.plist";
  n_groups := s "groups.plist"; n_kerning := s "kerning.plist"; n_features := s "features.fea";
  n_layercontents := s "layercontents.plist"; n_contents := s "contents.plist";
  n_layerinfo := s "layerinfo.plist"; n_glyphs_dir := s "glyphs"; n_data_dir := s "data";
  n_images_dir := s "images"; n_object_libs := s "public.objectLibs";
  n_default_layer := s "public.default"; n_creator := s "org.linebender.norad" |}.

Definition OBJ : str := n_object_libs norad_names.
Definition SPEC_OBJ : str := n_object_libs spec_names.
Definition GLYPHS : str := n_glyphs_dir norad_names.
Definition SPEC_GLYPHS : str := n_glyphs_dir spec_names.
Definition DEFAULT_LAYER_NAME : str := n_default_layer norad_names.
Definition NORAD_CREATOR : str := n_creator norad_names.

(* ------------------------------------------------------------------------------------------ *)
(** * Generic helpers *)

Definition obind {A B} (o : option A) (f : A -> option B) : option B :=
  match o with Some a => f a | None => None end.

Fixpoint mapM {A B E} (f : A -> result B E) (l : list A) : result (list B) E :=
  match l with
  | [] => Ok []
  | a :: r => bind (f a) (fun b => bind (mapM f r) (fun bs => Ok (b :: bs)))
  end.

Fixpoint omapM {A B} (f : A -> option B) (l : list A) : option (list B) :=
  match l with
  | [] => Some []
  | a :: r => obind (f a) (fun b => obind (omapM f r) (fun bs => Some (b :: bs)))
  end.

Fixpoint alookup {V} (k : str) (l : list (str * V)) : option V :=
  match l with
  | [] => None
  | (k', v) :: r => if str_eqb k k' then Some v else alookup k r
  end.

Fixpoint find_idx {A} (p : A -> bool) (l : list A) : option nat :=
  match l with
  | [] => None
  | a :: r => if p a then Some O else option_map S (find_idx p r)
  end.

Fixpoint remove_nth {A} (n : nat) (l : list A) : list A :=
  match l with
  | [] => []
  | a :: r => match n with O => r | S k => a :: remove_nth k r end
  end.

Fixpoint insert_nth {A} (n : nat) (x : A) (l : list A) : list A :=
  match n, l with
  | O, _ => x :: l
  | S k, y :: r => y :: insert_nth k x r
  | S _, [] => [x]
  end.

(** [Vec::remove(i)] followed by [insert(0, _)] *)
Definition move_to_front {A} (i : nat) (l : list A) : list A :=
  match nth_error l i with Some a => a :: remove_nth i l | None => l end.

Definition orel {A} (R : A -> A -> Prop) (a b : option A) : Prop :=
  match a, b with Some x, Some y => R x y | None, None => True | _, _ => False end.

Definition memb (x : str) (l : list str) : bool := existsb (str_eqb x) l.
Fixpoint nodupb (l : list str) : bool :=
  match l with [] => true | x :: r => negb (memb x r) && nodupb r end.

Definition is_nil {A} (l : list A) : bool := match l with [] => true | _ => false end.
Definition is_none {A} (o : option A) : bool := match o with None => true | Some _ => false end.

(** ** Feature text: [str::replace("\r\n", "\n")] (single pass, non-overlapping), applied only
    when the text contains a CR *)
Definition CR : N := 13.
Definition LF : N := 10.
Definition has_cr (t : str) : bool := existsb (N.eqb CR) t.
Fixpoint replace_crlf (t : str) : str :=
  match t with
  | [] => []
  | c :: r => match r with
              | d :: r' => if (c =? CR) && (d =? LF) then LF :: replace_crlf r' else c :: replace_crlf r
              | [] => [c]
              end
  end.
Definition features_to_write (t : str) : str := if has_cr t then replace_crlf t else t.

(** line-ending normal form used by the property's equality ("up to line-ending
    normalisation"): every CR of a CR...CR LF run is removed.  (One application of
    [replace_crlf] removes only the last CR of such a run, so it is not idempotent:
    "\r\r\n" -> "\r\n" -> "\n"; the normal form identifies all three.) *)
Definition starts_lf (t : str) : bool := match t with c :: _ => c =? LF | [] => false end.
Fixpoint crlf_norm (t : str) : str :=
  match t with
  | [] => []
  | c :: r => let r' := crlf_norm r in if (c =? CR) && starts_lf r' then r' else c :: r'
  end.
Definition feq (a b : str) : Prop := crlf_norm a = crlf_norm b.

(* ------------------------------------------------------------------------------------------ *)
(** * Parts: a codec with its domain of validity and its equality *)

Record part (C O X : Type) : Type := {
  enc : O -> X -> option C;          (* writer of one file, under the write options *)
  dec : C -> option X;               (* reader of one file *)
  wf : X -> Prop;                    (* values the writer represents (UFO 3 validity of the part,
                                        outside the part's known-finding classes) *)
  peq : X -> X -> Prop }.            (* the property's equality for the part (tolerances) *)
Arguments enc {C O X} p. Arguments dec {C O X} p. Arguments wf {C O X} p. Arguments peq {C O X} p.

Record part_ok {C O X} (p : part C O X) : Prop := {
  peq_refl : forall x, peq p x x;
  peq_sym : forall x y, peq p x y -> peq p y x;
  peq_trans : forall x y z, peq p x y -> peq p y z -> peq p x z;
  (** round trip: a valid value is written and read back as an equal value *)
  rt : forall o x, wf p x -> exists c x', enc p o x = Some c /\ dec p c = Some x' /\ peq p x x';
  (** the write options do not influence what is read back *)
  opts_irrel : forall o1 o2 x c1 c2, wf p x -> enc p o1 x = Some c1 -> enc p o2 x = Some c2 ->
                                      dec p c1 = dec p c2 }.

(** the reader only produces values the writer represents (used by C04 only) *)
Definition part_closed {C O X} (p : part C O X) : Prop := forall c x, dec p c = Some x -> wf p x.

(* ------------------------------------------------------------------------------------------ *)
(** * Font values *)

Record meta : Type := { m_creator : option str; m_version : N; m_minor : N }.

Record guideline (B D : Type) : Type := { g_body : B; g_id : option str; g_lib : option D }.
Arguments g_body {B D}. Arguments g_id {B D}. Arguments g_lib {B D}.
Record finfo (R B D : Type) : Type := { i_rest : R; i_guides : option (list (guideline B D)) }.
Arguments i_rest {R B D}. Arguments i_guides {R B D}.

(** what fontinfo.plist holds: the guidelines without their libs ([lib] is not a field of
    [RawGuideline], src/guideline.rs) *)
Definition sinfo (R B : Type) : Type := (R * option (list (B * option str)))%type.

Record layer (K D G : Type) : Type := {
  l_name : str; l_dir : str; l_color : option K; l_lib : D;
  l_glyphs : list (str * str * G) }.       (* glyph name, glif file name, glyph; BTreeMap order *)
Arguments l_name {K D G}. Arguments l_dir {K D G}. Arguments l_color {K D G}.
Arguments l_lib {K D G}. Arguments l_glyphs {K D G}.

(* ------------------------------------------------------------------------------------------ *)
(** * The signature: everything the font-level model is parametric in *)

Record sig : Type := {
  T_content : Type;      (* content of one file, as a value (plist value, glif tree) *)
  T_opts : Type;         (* WriteOptions *)
  T_pv : Type;           (* plist value *)
  T_dict : Type;         (* plist dictionary (Plist), key order not observable *)
  T_irest : Type;        (* FontInfo without [guidelines] *)
  T_gbody : Type;        (* Guideline without identifier and lib: line, name, colour *)
  T_color : Type;
  T_groups : Type;
  T_kerning : Type;
  T_glyph : Type;
  (** plist dictionaries *)
  veq : T_pv -> T_pv -> Prop;
  deq : T_dict -> T_dict -> Prop;
  d_empty : T_dict;
  d_get : str -> T_dict -> option T_pv;
  d_set : str -> T_pv -> T_dict -> T_dict;
  d_del : str -> T_dict -> T_dict;
  d_is_empty : T_dict -> bool;
  mk_dict : T_dict -> T_pv;                  (* plist::Value::Dictionary *)
  as_dict : T_pv -> option T_dict;           (* Value::into_dictionary *)
  wf_key : str -> Prop;                      (* keys the plist writer represents *)
  wf_pv : T_pv -> Prop;
  wf_color : T_color -> Prop;
  lc_entry_wf : str * str -> Prop;           (* a (layer name, directory) pair layercontents.plist represents *)
  (** codecs *)
  P_meta : part T_content T_opts meta;
  P_info : part T_content T_opts (sinfo T_irest T_gbody);
  P_lib : part T_content T_opts T_dict;
  P_groups : part T_content T_opts T_groups;
  P_kerning : part T_content T_opts T_kerning;
  P_lc : part T_content T_opts (list (str * str));          (* layercontents.plist *)
  P_contents : part T_content T_opts (list (str * str));    (* contents.plist *)
  P_li : part T_content T_opts (option T_color * option T_dict);   (* layerinfo.plist: keys present *)
  P_glif : part T_content T_opts T_glyph;
  (** defaults and emptiness tests *)
  irest_dflt : T_irest;
  irest_is_dflt : T_irest -> bool;           (* FontInfo == FontInfo::default(), guidelines apart *)
  groups_dflt : T_groups;
  groups_is_empty : T_groups -> bool;
  kerning_dflt : T_kerning;
  kerning_is_empty : T_kerning -> bool;
  ceq : T_color -> T_color -> Prop;          (* colours to 3 decimals *)
  (** validators run by save and load *)
  groups_ok : T_groups -> bool;                              (* validate_groups (C15) *)
  info_ok : finfo T_irest T_gbody T_dict -> bool;            (* FontInfo::validate (C13) *)
  (** [str::to_lowercase] (an arbitrary function here; nothing about it is assumed) *)
  lower : str -> str;
  (** glyph names: the name inside the glif is overridden by the key of contents.plist *)
  glyph_name : T_glyph -> str;
  set_name : str -> T_glyph -> T_glyph;
  (** legacy (format 1 / 2) conversions, owned by C14 / C15 *)
  legacy_info : N -> T_content -> option (finfo T_irest T_gbody T_dict);
  upconvert_kerning : T_groups -> T_kerning -> list str -> T_groups * T_kerning;
  robofab : T_content -> T_dict -> finfo T_irest T_gbody T_dict -> str ->
            option (T_dict * finfo T_irest T_gbody T_dict * str) }.

Section Model.
Variable S : sig.
Local Notation content := (T_content S).
Local Notation opts := (T_opts S).
Local Notation dict := (T_dict S).
Local Notation pv := (T_pv S).
Local Notation guide := (guideline (T_gbody S) (T_dict S)).
Local Notation info := (finfo (T_irest S) (T_gbody S) (T_dict S)).
Local Notation lay := (layer (T_color S) (T_dict S) (T_glyph S)).

Record font : Type := {
  f_meta : meta; f_info : info; f_lib : dict; f_groups : T_groups S; f_kerning : T_kerning S;
  f_features : str; f_layers : list lay;
  f_data : list (path * bytes); f_images : list (path * bytes) }.

(** ** The tree of files *)
Record ldir : Type := {
  ld_contents : option content; ld_info : option content; ld_glifs : list (str * content) }.
Record tree : Type := {
  t_meta : option content; t_info : option content; t_lib : option content;
  t_groups : option content; t_kerning : option content; t_features : option str;
  t_lcontents : option content;
  t_dirs : list (str * ldir);                       (* layer directories, in creation order *)
  t_data : option (list (path * bytes));            (* None: no data directory *)
  t_images : option (list (path * bytes)) }.

Definition opt_path {A} (p : path) (o : option A) : list path := match o with Some _ => [p] | None => [] end.
Definition dir_paths (nm : names) (d : str * ldir) : list path :=
  opt_path [fst d; n_contents nm] (ld_contents (snd d)) ++
  opt_path [fst d; n_layerinfo nm] (ld_info (snd d)) ++
  map (fun g => [fst d; fst g]) (ld_glifs (snd d)).
Definition store_paths (dir : str) (o : option (list (path * bytes))) : list path :=
  match o with Some l => map (fun e => dir :: fst e) l | None => [] end.
(** every file of the tree, with the names of [nm] *)
Definition paths_of (nm : names) (t : tree) : list path :=
  opt_path [n_metainfo nm] (t_meta t) ++ opt_path [n_fontinfo nm] (t_info t) ++
  opt_path [n_lib nm] (t_lib t) ++ opt_path [n_groups nm] (t_groups t) ++
  opt_path [n_kerning nm] (t_kerning t) ++ opt_path [n_features nm] (t_features t) ++
  opt_path [n_layercontents nm] (t_lcontents t) ++
  flat_map (dir_paths nm) (t_dirs t) ++
  store_paths (n_data_dir nm) (t_data t) ++ store_paths (n_images_dir nm) (t_images t).

(** ** Dictionary helpers *)
Definition d_mem (k : str) (d : dict) : bool := negb (is_none (d_get S k d)).
(** [Dictionary::remove]: removing an absent key leaves the dictionary as it is *)
Definition remove_key (k : str) (d : dict) : dict := if d_mem k d then d_del S k d else d.
Definition wf_dict (d : dict) : Prop :=
  forall k v, d_get S k d = Some v -> wf_key S k /\ wf_pv S v.

(** ** Font info and its guidelines *)
Definition bare (g : T_gbody S * option str) : guide :=
  {| g_body := fst g; g_id := snd g; g_lib := None |}.
Definition strip_g (g : guide) : T_gbody S * option str := (g_body g, g_id g).
Definition stripped (i : info) : sinfo (T_irest S) (T_gbody S) :=
  (i_rest i, option_map (map strip_g) (i_guides i)).
Definition info_dflt : info := {| i_rest := irest_dflt S; i_guides := None |}.
(** [FontInfo::is_empty]: equal to the default value *)
Definition info_is_default (i : info) : bool := irest_is_dflt S (i_rest i) && is_none (i_guides i).
Definition guides_of (i : info) : list guide := match i_guides i with Some l => l | None => [] end.

(** [FontInfo::dump_object_libs]; site 1 = [id.unwrap()] on a guideline with a lib and no
    identifier *)
Inductive serr := SDowngrade | SPreexistingObjectLibs | SInvalidGroups | SInvalidInfo | SWrite (file : N).
Fixpoint dump_object_libs (gs : list guide) (acc : dict) : result dict serr :=
  match gs with
  | [] => Ok acc
  | g :: r => match g_lib g with
              | None => dump_object_libs r acc
              | Some l => match g_id g with
                          | None => Panic 1
                          | Some id => dump_object_libs r (d_set S id (mk_dict S l) acc)
                          end
              end
  end.

(* ------------------------------------------------------------------------------------------ *)
(** * [Font::save_impl] *)

Definition creator_is_norad (c : option str) : bool :=
  match c with Some x => str_eqb x NORAD_CREATOR | None => false end.
(** the metainfo that is written: the font's own only if its creator is norad's *)
Definition meta_to_write (m : meta) : meta :=
  if creator_is_norad (m_creator m) then m
  else {| m_creator := Some NORAD_CREATOR; m_version := 3; m_minor := m_minor m |}.

Definition write_opt {X} (p : part content opts X) (o : opts) (skip : bool) (x : X) (file : N)
  : result (option content) serr :=
  if skip then Ok None
  else match enc p o x with Some c => Ok (Some c) | None => Err (SWrite file) end.

(** the lib that is written: the font lib plus the guideline libs under [public.objectLibs] *)
Definition lib_to_write (f : font) : result dict serr :=
  bind (dump_object_libs (guides_of (f_info f)) (d_empty S)) (fun ol =>
  Ok (if d_is_empty S ol then f_lib f else d_set S OBJ (mk_dict S ol) (f_lib f))).

Definition contents_of (l : lay) : list (str * str) := map fst (l_glyphs l).
(** [layerinfo_to_file_if_needed]: skipped iff no colour and an empty lib; the dictionary holds
    "color" iff there is one and "lib" iff it is non-empty *)
Definition layerinfo_skipped (l : lay) : bool := is_none (l_color l) && d_is_empty S (l_lib l).
Definition layerinfo_value (l : lay) : option (T_color S) * option dict :=
  (l_color l, if d_is_empty S (l_lib l) then None else Some (l_lib l)).

Definition save_glyph (o : opts) (e : str * str * T_glyph S) : result (str * content) serr :=
  match enc (P_glif S) o (snd e) with Some c => Ok (snd (fst e), c) | None => Err (SWrite 9) end.

(** [Layer::save_with_options]: contents.plist, layerinfo.plist if needed, the glifs in
    contents order.  (The glyph map and the contents index are one list here; their consistency
    is C06's subject.) *)
Definition save_layer (o : opts) (l : lay) : result (str * ldir) serr :=
  bind (write_opt (P_contents S) o false (contents_of l) 7) (fun cc =>
  bind (write_opt (P_li S) o (layerinfo_skipped l) (layerinfo_value l) 8) (fun lic =>
  bind (mapM (save_glyph o) (l_glyphs l)) (fun gl =>
  Ok (l_dir l, {| ld_contents := cc; ld_info := lic; ld_glifs := gl |})))).

Definition lc_of (ls : list lay) : list (str * str) := map (fun l => (l_name l, l_dir l)) ls.
Definition store_to_write (l : list (path * bytes)) : option (list (path * bytes)) :=
  if is_nil l then None else Some l.

Definition save (o : opts) (f : font) : result tree serr :=
  if negb (m_version (f_meta f) =? 3) then Err SDowngrade else
  if d_mem OBJ (f_lib f) then Err SPreexistingObjectLibs else
  if negb (groups_ok S (f_groups f)) then Err SInvalidGroups else
  if negb (info_ok S (f_info f)) then Err SInvalidInfo else
  bind (write_opt (P_meta S) o false (meta_to_write (f_meta f)) 0) (fun mc =>
  bind (write_opt (P_info S) o (info_is_default (f_info f)) (stripped (f_info f)) 1) (fun ic =>
  bind (lib_to_write f) (fun lib =>
  bind (write_opt (P_lib S) o (d_is_empty S lib) lib 2) (fun lbc =>
  bind (write_opt (P_groups S) o (groups_is_empty S (f_groups f)) (f_groups f) 3) (fun gc =>
  bind (write_opt (P_kerning S) o (kerning_is_empty S (f_kerning f)) (f_kerning f) 4) (fun kc =>
  bind (write_opt (P_lc S) o false (lc_of (f_layers f)) 6) (fun lcc =>
  bind (mapM (save_layer o) (f_layers f)) (fun dirs =>
  Ok {| t_meta := mc; t_info := ic; t_lib := lbc; t_groups := gc; t_kerning := kc;
        t_features := if is_nil (f_features f) then None else Some (features_to_write (f_features f));
        t_lcontents := lcc; t_dirs := dirs;
        t_data := store_to_write (f_data f); t_images := store_to_write (f_images f) |})))))))).

(* ------------------------------------------------------------------------------------------ *)
(** * [Font::load_impl] with [DataRequest::all()] *)

Inductive lerr :=
| LMissingMetaInfo | LParse (file : N) | LInvalidInfo | LInvalidGroups
| LObjectLibsMustBeDict | LGuidelineLibMustBeDict | LMissingLayerContents | LMissingDefaultLayer
| LMissingContents | LGlyph | LLegacy
| LDuplicateLayerName | LDuplicateLayerDirectory | LReservedLayerName | LDuplicateGlyphFile.

(** [FontInfo::load_object_libs]: the key is removed from the lib; every guideline with an
    identifier takes (and removes) the entry of that name, which must be a dictionary; entries
    without a guideline vanish *)
Fixpoint attach_libs (gs : list (T_gbody S * option str)) (ol : dict) : result (list guide) lerr :=
  match gs with
  | [] => Ok []
  | g :: r =>
      match snd g with
      | None => bind (attach_libs r ol) (fun r' => Ok (bare g :: r'))
      | Some id =>
          match d_get S id ol with
          | None => bind (attach_libs r ol) (fun r' => Ok (bare g :: r'))
          | Some v => match as_dict S v with
                      | None => Err LGuidelineLibMustBeDict
                      | Some l => bind (attach_libs r (d_del S id ol)) (fun r' =>
                                  Ok ({| g_body := fst g; g_id := Some id; g_lib := Some l |} :: r'))
                      end
          end
      end
  end.

Definition load_object_libs (sg : option (list (T_gbody S * option str))) (lib : dict)
  : result (option (list guide) * dict) lerr :=
  match d_get S OBJ lib with
  | None => Ok (option_map (map bare) sg, lib)
  | Some v =>
      match as_dict S v with
      | None => Err LObjectLibsMustBeDict
      | Some ol =>
          match sg with
          | None => Ok (None, d_del S OBJ lib)
          | Some gs => bind (attach_libs gs ol) (fun gs' => Ok (Some gs', d_del S OBJ lib))
          end
      end
  end.

(** [FontInfo::from_file] *)
Definition load_fontinfo (v : N) (c : content) (lib : dict) : result (info * dict) lerr :=
  if v =? 3 then
    match dec (P_info S) c with
    | None => Err (LParse 1)
    | Some si =>
        if info_ok S {| i_rest := fst si; i_guides := option_map (map bare) (snd si) |} then
          bind (load_object_libs (snd si) lib) (fun r =>
          Ok ({| i_rest := fst si; i_guides := fst r |}, snd r))
        else Err LInvalidInfo
    end
  else
    match legacy_info S v c with
    | None => Err LLegacy
    | Some i => if info_ok S i then Ok (i, lib) else Err LInvalidInfo
    end.

Definition load_opt {X} (p : part content opts X) (c : option content) (file : N)
  : result (option X) lerr :=
  match c with
  | None => Ok None
  | Some c => match dec p c with Some x => Ok (Some x) | None => Err (LParse file) end
  end.

Definition load_glyph (d : ldir) (e : str * str) : result (str * str * T_glyph S) lerr :=
  match alookup (snd e) (ld_glifs d) with
  | None => Err LGlyph
  | Some c => match dec (P_glif S) c with
              | None => Err LGlyph
              | Some g => Ok (fst e, snd e, set_name S (fst e) g)
              end
  end.

(** [Layer::load_impl] *)
Definition load_layer (t : tree) (e : str * str) : result lay lerr :=
  match alookup (snd e) (t_dirs t) with
  | None => Err LMissingContents
  | Some d =>
      match ld_contents d with
      | None => Err LMissingContents
      | Some cc =>
          match dec (P_contents S) cc with
          | None => Err (LParse 7)
          | Some cl =>
              (* every glif file name may be used once, compared lower-cased (seen set, in glyph-name order) *)
              if negb (nodupb (map (fun e => lower S (snd e)) cl)) then Err LDuplicateGlyphFile else
              bind (mapM (load_glyph d) cl) (fun gl =>
              bind (load_opt (P_li S) (ld_info d) 8) (fun li =>
              Ok {| l_name := fst e; l_dir := snd e;
                    l_color := match li with Some v => fst v | None => None end;
                    l_lib := match li with
                             | Some (_, Some l) => l
                             | _ => d_empty S
                             end;
                    l_glyphs := gl |}))
          end
      end
  end.

Definition is_default_dir (l : lay) : bool := str_eqb (l_dir l) GLYPHS.

(** [LayerContents::load]: without layercontents.plist (legal before format 3) one layer
    [public.default] in [glyphs]; the default layer is the first one whose directory is
    [glyphs] and is moved to the front *)
(** the pre-filter loop of [LayerContents::load], per entry in file order: name already seen
    (exactly), directory already seen (lower-cased, like the taken-set), [public.default] in a
    directory other than [glyphs].  (Directories are
    single path components in this model; the [plain_name] test is C09's.) *)
Fixpoint lc_precheck (seen_n seen_d : list str) (lc : list (str * str)) : option lerr :=
  match lc with
  | [] => None
  | e :: r =>
      if memb (fst e) seen_n then Some LDuplicateLayerName
      else if memb (lower S (snd e)) seen_d then Some LDuplicateLayerDirectory
      else if str_eqb (fst e) DEFAULT_LAYER_NAME && negb (str_eqb (snd e) GLYPHS) then Some LReservedLayerName
      else lc_precheck (fst e :: seen_n) (lower S (snd e) :: seen_d) r
  end.

Definition load_layers (t : tree) (v : N) : result (list lay) lerr :=
  bind (match t_lcontents t with
        | None => if v =? 3 then Err LMissingLayerContents else Ok [(DEFAULT_LAYER_NAME, GLYPHS)]
        | Some c => match dec (P_lc S) c with Some l => Ok l | None => Err (LParse 6) end
        end) (fun lc =>
  match lc_precheck [] [] lc with Some e => Err e | None =>
  bind (mapM (load_layer t) lc) (fun ls =>
  match find_idx is_default_dir ls with
  | None => Err LMissingDefaultLayer
  | Some i => Ok (move_to_front i ls)
  end) end).

Definition all_glyph_names (ls : list lay) : list str :=
  flat_map (fun l => map (fun e => fst (fst e)) (l_glyphs l)) ls.
Definition store_loaded (o : option (list (path * bytes))) : list (path * bytes) :=
  match o with Some l => l | None => [] end.

Definition load (t : tree) : result font lerr :=
  match t_meta t with
  | None => Err LMissingMetaInfo
  | Some mc =>
  match dec (P_meta S) mc with
  | None => Err (LParse 0)
  | Some m =>
  let v := m_version m in
  bind (load_opt (P_lib S) (t_lib t) 2) (fun lib0 =>
  let lib0 := match lib0 with Some d => d | None => d_empty S end in
  bind (match t_info t with
        | None => Ok (info_dflt, lib0)
        | Some c => load_fontinfo v c lib0
        end) (fun il0 =>
  (* public.objectLibs is removed from the lib whether or not a font info consumed it *)
  let il := (fst il0, remove_key OBJ (snd il0)) in
  bind (load_opt (P_groups S) (t_groups t) 3) (fun g0 =>
  bind (match g0 with
        | Some g => if groups_ok S g then Ok g0 else Err LInvalidGroups
        | None => Ok None
        end) (fun g0 =>
  bind (load_opt (P_kerning S) (t_kerning t) 4) (fun k0 =>
  let fea0 := match t_features t with Some x => x | None => [] end in
  bind (load_layers t v) (fun ls =>
  (* kerning upconversion for format 1 / 2 when there is a groups file *)
  bind (if v =? 3 then Ok (g0, k0)
        else match g0 with
             | None => Ok (None, k0)
             | Some g =>
                 let r := upconvert_kerning S g (match k0 with Some k => k | None => kerning_dflt S end)
                                            (all_glyph_names ls) in
                 if groups_ok S (fst r) then Ok (Some (fst r), Some (snd r)) else Err LInvalidGroups
             end) (fun gk =>
  (* format 1: robofab data of lib.plist (re-read whenever the file exists) *)
  bind (if v =? 1 then
          match t_lib t with
          | None => Ok (snd il, fst il, fea0)
          | Some c => match robofab S c (snd il) (fst il) fea0 with
                      | Some r => Ok r
                      | None => Err LLegacy
                      end
          end
        else Ok (snd il, fst il, fea0)) (fun lif =>
  Ok {| f_meta := {| m_creator := m_creator m; m_version := 3; m_minor := m_minor m |};
        f_info := snd (fst lif); f_lib := fst (fst lif);
        f_groups := match fst gk with Some g => g | None => groups_dflt S end;
        f_kerning := match snd gk with Some k => k | None => kerning_dflt S end;
        f_features := snd lif; f_layers := ls;
        f_data := store_loaded (t_data t); f_images := store_loaded (t_images t) |}))))))))
  end end.

(* ------------------------------------------------------------------------------------------ *)
(** * Validity and equality of fonts (the property's vocabulary) *)

Definition guide_ok (g : guide) : Prop :=
  (forall l, g_lib g = Some l -> wf_dict l /\ exists id, g_id g = Some id) /\
  (forall id, g_id g = Some id -> wf_key S id).
Fixpoint some_ids (l : list (option str)) : list str :=
  match l with [] => [] | Some x :: r => x :: some_ids r | None :: r => some_ids r end.

Definition glyph_entry_ok (e : str * str * T_glyph S) : Prop :=
  wf (P_glif S) (snd e) /\ glyph_name S (snd e) = fst (fst e).
Definition layer_ok (l : lay) : Prop :=
  wf_dict (l_lib l) /\ (forall k, l_color l = Some k -> wf_color S k) /\
  wf (P_contents S) (contents_of l) /\
  NoDup (map (fun e => lower S (snd (fst e))) (l_glyphs l)) /\    (* distinct ignoring case *)
  Forall glyph_entry_ok (l_glyphs l).

(** the first layer is the default layer (directory [glyphs]), no other layer uses that
    directory, directories are pairwise distinct ignoring case *)
Definition layers_ok (ls : list lay) : Prop :=
  match ls with
  | [] => False
  | d :: r => l_dir d = GLYPHS /\ Forall (fun l => l_dir l <> GLYPHS) r
  end /\ NoDup (map (fun l => lower S (l_dir l)) ls) /\ Forall layer_ok ls /\ wf (P_lc S) (lc_of ls) /\
  (* layer names are unique and only the default layer may be called public.default *)
  NoDup (map l_name ls) /\ Forall (fun l => l_name l = DEFAULT_LAYER_NAME -> l_dir l = GLYPHS) ls.

Definition font_valid (f : font) : Prop :=
  m_version (f_meta f) = 3 /\
  wf (P_meta S) (meta_to_write (f_meta f)) /\
  (* font info *)
  info_ok S (f_info f) = true /\ wf (P_info S) (stripped (f_info f)) /\
  Forall guide_ok (guides_of (f_info f)) /\
  NoDup (some_ids (map g_id (guides_of (f_info f)))) /\
  (* lib: no user-supplied public.objectLibs *)
  wf_dict (f_lib f) /\ d_get S OBJ (f_lib f) = None /\
  groups_ok S (f_groups f) = true /\ wf (P_groups S) (f_groups f) /\
  wf (P_kerning S) (f_kerning f) /\
  layers_ok (f_layers f).

(** font info: the fontinfo.plist view under the part's equality, identifiers exactly, guideline
    libs under dictionary equality *)
Definition info_eq (a b : info) : Prop :=
  peq (P_info S) (stripped a) (stripped b) /\
  orel (Forall2 (fun x y : guide => g_id x = g_id y /\ orel (deq S) (g_lib x) (g_lib y)))
       (i_guides a) (i_guides b).

Definition glyph_entry_eq (a b : str * str * T_glyph S) : Prop :=
  fst a = fst b /\ peq (P_glif S) (snd a) (snd b).
Definition layer_eq (a b : lay) : Prop :=
  l_name a = l_name b /\ l_dir a = l_dir b /\ orel (ceq S) (l_color a) (l_color b) /\
  deq S (l_lib a) (l_lib b) /\ Forall2 glyph_entry_eq (l_glyphs a) (l_glyphs b).

(** everything but the creator; feature text up to line endings; stores byte-identical *)
Definition font_equiv (a b : font) : Prop :=
  m_version (f_meta a) = m_version (f_meta b) /\ m_minor (f_meta a) = m_minor (f_meta b) /\
  info_eq (f_info a) (f_info b) /\ deq S (f_lib a) (f_lib b) /\
  peq (P_groups S) (f_groups a) (f_groups b) /\ peq (P_kerning S) (f_kerning a) (f_kerning b) /\
  feq (f_features a) (f_features b) /\
  Forall2 layer_eq (f_layers a) (f_layers b) /\
  f_data a = f_data b /\ f_images a = f_images b.

(* ------------------------------------------------------------------------------------------ *)
(** * Specification side: a writer and a reader that know only the UFO 3 specification

    [spec_write] is a family of conforming writers: the specification makes fontinfo.plist,
    lib.plist, groups.plist, kerning.plist, features.fea, layerinfo.plist and the two store
    directories optional, so a writer may omit them when they hold nothing or write them empty
    ([choices]); layercontents.plist lists the layers in any order, the default layer being the
    one in the directory [glyphs] ([c_default_pos]).  Object libs of font-info guidelines live
    in lib.plist under [public.objectLibs], keyed by identifier. *)

Record choices : Type := {
  c_info : bool;          (* write fontinfo.plist even if there is nothing in it *)
  c_lib : bool; c_groups : bool; c_kerning : bool; c_features : bool;
  c_layerinfo : bool;     (* write layerinfo.plist even without colour and lib *)
  c_layerlib : bool;      (* in layerinfo.plist, write an empty lib *)
  c_data : bool; c_images : bool;   (* create empty store directories *)
  c_norm_crlf : bool;     (* write the feature text with CR LF line endings replaced by LF *)
  c_default_pos : nat }.  (* position of the default layer in layercontents.plist *)

(** the choices norad's writer makes *)
Definition norad_choices : choices := {|
  c_info := false; c_lib := false; c_groups := false; c_kerning := false; c_features := false;
  c_layerinfo := false; c_layerlib := false; c_data := false; c_images := false;
  c_norm_crlf := true;
  c_default_pos := O |}.

Definition spec_opt {X} (p : part content opts X) (o : opts) (skip : bool) (x : X)
  : option (option content) :=
  if skip then Some None else option_map Some (enc p o x).

(** the object-lib dictionary: identifier -> lib, for every guideline that has a lib *)
Fixpoint spec_object_libs (gs : list guide) (acc : dict) : option dict :=
  match gs with
  | [] => Some acc
  | g :: r => match g_lib g, g_id g with
              | None, _ => spec_object_libs r acc
              | Some l, Some id => spec_object_libs r (d_set S id (mk_dict S l) acc)
              | Some _, None => None      (* a lib needs an identifier *)
              end
  end.

Definition spec_write_layer (c : choices) (o : opts) (l : lay) : option (str * ldir) :=
  obind (enc (P_contents S) o (contents_of l)) (fun cc =>
  obind (spec_opt (P_li S) o (negb (c_layerinfo c) && is_none (l_color l) && d_is_empty S (l_lib l))
           (l_color l, if d_is_empty S (l_lib l) && negb (c_layerlib c) then None else Some (l_lib l)))
        (fun lic =>
  obind (omapM (fun e : str * str * T_glyph S =>
                  option_map (fun gc => (snd (fst e), gc)) (enc (P_glif S) o (snd e))) (l_glyphs l))
        (fun gl =>
  Some (l_dir l, {| ld_contents := Some cc; ld_info := lic; ld_glifs := gl |})))).

Definition spec_store (w : bool) (l : list (path * bytes)) : option (list (path * bytes)) :=
  if is_nil l && negb w then None else Some l.

(** the layers as listed in layercontents.plist: the default layer at the chosen position *)
Definition spec_layer_order (c : choices) (ls : list lay) : list lay :=
  match ls with [] => [] | d :: r => insert_nth (c_default_pos c) d r end.

Definition spec_write (c : choices) (o : opts) (f : font) : option tree :=
  obind (enc (P_meta S) o {| m_creator := Some (n_creator spec_names); m_version := 3;
                             m_minor := m_minor (f_meta f) |}) (fun mc =>
  obind (spec_opt (P_info S) o (negb (c_info c) && info_is_default (f_info f)) (stripped (f_info f)))
        (fun ic =>
  obind (spec_object_libs (guides_of (f_info f)) (d_empty S)) (fun ol =>
  let lib := if d_is_empty S ol then f_lib f else d_set S SPEC_OBJ (mk_dict S ol) (f_lib f) in
  obind (spec_opt (P_lib S) o (negb (c_lib c) && d_is_empty S lib) lib) (fun lbc =>
  obind (spec_opt (P_groups S) o (negb (c_groups c) && groups_is_empty S (f_groups f)) (f_groups f))
        (fun gc =>
  obind (spec_opt (P_kerning S) o (negb (c_kerning c) && kerning_is_empty S (f_kerning f)) (f_kerning f))
        (fun kc =>
  obind (enc (P_lc S) o (lc_of (spec_layer_order c (f_layers f)))) (fun lcc =>
  obind (omapM (spec_write_layer c o) (f_layers f)) (fun dirs =>
  Some {| t_meta := Some mc; t_info := ic; t_lib := lbc; t_groups := gc; t_kerning := kc;
          t_features := if is_nil (f_features f) && negb (c_features c) then None
                        else Some (if c_norm_crlf c then features_to_write (f_features f)
                                   else f_features f);
          t_lcontents := Some lcc; t_dirs := dirs;
          t_data := spec_store (c_data c) (f_data f);
          t_images := spec_store (c_images c) (f_images f) |})))))))).

(** ** The independent reader *)
Fixpoint spec_attach (gs : list (T_gbody S * option str)) (ol : dict) : option (list guide) :=
  match gs with
  | [] => Some []
  | g :: r =>
      obind (spec_attach r ol) (fun r' =>
      match snd g with
      | None => Some (bare g :: r')
      | Some id => match d_get S id ol with
                   | None => Some (bare g :: r')
                   | Some v => option_map (fun l => {| g_body := fst g; g_id := Some id; g_lib := Some l |} :: r')
                                          (as_dict S v)
                   end
      end)
  end.

Definition spec_read_opt {X} (p : part content opts X) (c : option content) (dflt : X) : option X :=
  match c with None => Some dflt | Some c => dec p c end.

Definition spec_read_layer (t : tree) (e : str * str) : option lay :=
  obind (alookup (snd e) (t_dirs t)) (fun d =>
  obind (ld_contents d) (fun cc =>
  obind (dec (P_contents S) cc) (fun cl =>
  obind (omapM (fun ce : str * str =>
                  obind (alookup (snd ce) (ld_glifs d)) (fun gc =>
                  option_map (fun g => (fst ce, snd ce, set_name S (fst ce) g)) (dec (P_glif S) gc))) cl)
        (fun gl =>
  obind (spec_read_opt (P_li S) (ld_info d) (None, None)) (fun li =>
  Some {| l_name := fst e; l_dir := snd e; l_color := fst li;
          l_lib := match snd li with Some l => l | None => d_empty S end;
          l_glyphs := gl |}))))).

(** default layer (directory [glyphs]) first, the other layers in file order *)
Definition spec_default_first (ls : list lay) : option (list lay) :=
  match filter (fun l => str_eqb (l_dir l) SPEC_GLYPHS) ls with
  | [d] => Some (d :: filter (fun l => negb (str_eqb (l_dir l) SPEC_GLYPHS)) ls)
  | _ => None
  end.

Definition spec_read (t : tree) : option font :=
  obind (t_meta t) (fun mc =>
  obind (dec (P_meta S) mc) (fun m =>
  if negb (m_version m =? 3) then None else
  obind (spec_read_opt (P_lib S) (t_lib t) (d_empty S)) (fun lib0 =>
  obind (spec_read_opt (P_info S) (t_info t) (irest_dflt S, None)) (fun si =>
  obind (match d_get S SPEC_OBJ lib0 with
         | None => Some (option_map (map bare) (snd si), lib0)
         | Some v => match snd si with
                     | None => Some (None, d_del S SPEC_OBJ lib0)     (* nobody to own the entries *)
                     | Some gs => obind (as_dict S v) (fun ol =>
                                  option_map (fun gs' => (Some gs', d_del S SPEC_OBJ lib0)) (spec_attach gs ol))
                     end
         end) (fun gl =>
  obind (spec_read_opt (P_groups S) (t_groups t) (groups_dflt S)) (fun g =>
  obind (spec_read_opt (P_kerning S) (t_kerning t) (kerning_dflt S)) (fun k =>
  obind (t_lcontents t) (fun lcc =>
  obind (dec (P_lc S) lcc) (fun lc =>
  obind (omapM (spec_read_layer t) lc) (fun ls =>
  obind (spec_default_first ls) (fun ls' =>
  Some {| f_meta := m; f_info := {| i_rest := fst si; i_guides := fst gl |}; f_lib := snd gl;
          f_groups := g; f_kerning := k;
          f_features := match t_features t with Some x => x | None => [] end;
          f_layers := ls';
          f_data := store_loaded (t_data t); f_images := store_loaded (t_images t) |}))))))))))).

(* ------------------------------------------------------------------------------------------ *)
(** * Laws of the signature *)

Record sig_ok : Prop := {
  ok_meta : part_ok (P_meta S); ok_info : part_ok (P_info S); ok_lib : part_ok (P_lib S);
  ok_groups : part_ok (P_groups S); ok_kerning : part_ok (P_kerning S); ok_lc : part_ok (P_lc S);
  ok_contents : part_ok (P_contents S); ok_li : part_ok (P_li S); ok_glif : part_ok (P_glif S);
  (** metainfo, layercontents and contents come back exactly *)
  meta_exact : forall a b, peq (P_meta S) a b -> a = b;
  lc_exact : forall a b, peq (P_lc S) a b -> a = b;
  contents_exact : forall a b, peq (P_contents S) a b -> a = b;
  (** layerinfo: key presence exactly, colour and lib under their equalities *)
  lc_wf : forall l, wf (P_lc S) l <-> Forall (lc_entry_wf S) l;
  li_wf : forall c ol, wf (P_li S) (c, ol) <->
          (forall k, c = Some k -> wf_color S k) /\ (forall l, ol = Some l -> wf_dict l);
  li_eq : forall a b, peq (P_li S) a b <-> orel (ceq S) (fst a) (fst b) /\ orel (deq S) (snd a) (snd b);
  (** the font-info equality keeps the shape of the guideline list and the identifiers *)
  info_eq_ids : forall a b, peq (P_info S) a b ->
                orel (Forall2 (fun x y : T_gbody S * option str => snd x = snd y)) (snd a) (snd b);
  (** the lib part is the dictionary type with its own validity and equality *)
  lib_wf : forall d, wf (P_lib S) d <-> wf_dict d;
  lib_eq : forall a b, peq (P_lib S) a b <-> deq S a b;
  (** dictionaries *)
  veq_refl : forall v, veq S v v;
  veq_sym : forall v w, veq S v w -> veq S w v;
  veq_trans : forall u v w, veq S u v -> veq S v w -> veq S u w;
  get_empty : forall k, d_get S k (d_empty S) = None;
  get_set : forall k k' v d, d_get S k (d_set S k' v d) = if str_eqb k k' then Some v else d_get S k d;
  get_del : forall k k' d, d_get S k (d_del S k' d) = if str_eqb k k' then None else d_get S k d;
  is_empty_get : forall d, d_is_empty S d = true <-> forall k, d_get S k d = None;
  deq_get : forall a b, deq S a b <-> forall k, orel (veq S) (d_get S k a) (d_get S k b);
  as_mk : forall d, as_dict S (mk_dict S d) = Some d;
  as_dict_veq : forall v w, veq S v w -> orel (deq S) (as_dict S v) (as_dict S w);
  wf_mk : forall d, wf_dict d -> wf_pv S (mk_dict S d);
  wf_as : forall v d, wf_pv S v -> as_dict S v = Some d -> wf_dict d;
  wf_obj_key : wf_key S OBJ;
  (** defaults *)
  irest_dflt_spec : forall r, irest_is_dflt S r = true <-> r = irest_dflt S;
  info_dflt_wf : wf (P_info S) (irest_dflt S, None);
  info_dflt_ok : info_ok S info_dflt = true;
  groups_empty_spec : forall g, groups_is_empty S g = true -> peq (P_groups S) g (groups_dflt S);
  groups_dflt_wf : wf (P_groups S) (groups_dflt S) /\ groups_ok S (groups_dflt S) = true;
  kerning_empty_spec : forall k, kerning_is_empty S k = true -> peq (P_kerning S) k (kerning_dflt S);
  kerning_dflt_wf : wf (P_kerning S) (kerning_dflt S);
  (** validators depend on what the files hold only *)
  groups_ok_eq : forall a b, peq (P_groups S) a b -> groups_ok S a = groups_ok S b;
  info_ok_stripped : forall a b : info, peq (P_info S) (stripped a) (stripped b) ->
                     info_ok S a = info_ok S b;
  (** glyph names *)
  set_name_same : forall g, set_name S (glyph_name S g) g = g;
  set_name_eq : forall n a b, peq (P_glif S) a b -> peq (P_glif S) (set_name S n a) (set_name S n b);
  name_of_set : forall n g, glyph_name S (set_name S n g) = n }.


(** * C04: the reader only produces what the writer represents *)

Definition dflt_list {A} (o : option (list A)) : list A := match o with Some l => l | None => [] end.

(** per-part closedness (to be discharged by the part owners: [parse_glif] yields valid glyphs,
    [FontInfo::validate] yields valid info with valid, distinct guideline identifiers, the plist
    reader yields representable values) *)
Record sig_closed0 : Prop := {
  cl_info : part_closed (P_info S); cl_lib : part_closed (P_lib S);
  cl_groups : part_closed (P_groups S); cl_kerning : part_closed (P_kerning S);
  cl_lc : part_closed (P_lc S); cl_contents : part_closed (P_contents S);
  cl_li : part_closed (P_li S);
  meta_wf_norad : forall c m, dec (P_meta S) c = Some m ->
                  wf (P_meta S) {| m_creator := Some NORAD_CREATOR; m_version := 3; m_minor := m_minor m |};
  info_ids_wf : forall c si, dec (P_info S) c = Some si -> forall g, In g (dflt_list (snd si)) ->
                forall id, snd g = Some id -> wf_key S id;
  info_ok_nodup : forall i : info, info_ok S i = true -> NoDup (some_ids (map g_id (guides_of i))) }.
(** the same, asked only of the files of ONE tree where a reader is not closed in general (a real
    lib / kerning / layerinfo reader also returns values outside its writer's domain, e.g.
    non-finite reals): lib.plist, kerning.plist and the layerinfo.plist files of [t] *)
Record sig_closed_at (t : tree) : Prop := {
  at_info : part_closed (P_info S);
  at_groups : part_closed (P_groups S);
  at_lc : part_closed (P_lc S); at_contents : part_closed (P_contents S);
  at_lib : forall c x, t_lib t = Some c -> dec (P_lib S) c = Some x -> wf (P_lib S) x;
  at_kerning : forall c x, t_kerning t = Some c -> dec (P_kerning S) c = Some x -> wf (P_kerning S) x;
  at_li : forall dn d c x, alookup dn (t_dirs t) = Some d -> ld_info d = Some c ->
          dec (P_li S) c = Some x -> wf (P_li S) x;
  at_meta_wf_norad : forall c m, dec (P_meta S) c = Some m ->
                  wf (P_meta S) {| m_creator := Some NORAD_CREATOR; m_version := 3; m_minor := m_minor m |};
  at_info_ids_wf : forall c si, dec (P_info S) c = Some si -> forall g, In g (dflt_list (snd si)) ->
                forall id, snd g = Some id -> wf_key S id;
  at_info_ok_nodup : forall i : info, info_ok S i = true -> NoDup (some_ids (map g_id (guides_of i))) }.
(** ... plus the glif reader: what it returns is in the writer's domain, whatever name it is given *)
Record sig_closed : Prop := {
  cl_base : sig_closed0;
  cl_glif : part_closed (P_glif S);
  wf_set_name : forall n g, wf (P_glif S) g -> wf (P_glif S) (set_name S n g) }.

End Model.
