(** C06 / C07 (container level) — model of norad's [Layer] and [LayerContents] (src/layer.rs) and
    of the layer part of [Font::save] / [Font::load] (src/font.rs), as the code is now (after
    the fixes b591b93, cb0cbeb, 9e55e34, 3ae5a57, 01f54ac, 6bd743f).  Definitions only; proofs
    are in Proofs/LayerP.v.  Style: std++ ([gmap], [gset]).

    A glyph is represented by its name only: [l_glyphs] maps the key of the glyph map to the
    glyph's own [name] field (they can differ only through the raw [Layer::entry] API).  File
    and directory names come from the file-name model (Model/FileName.v); [is_upper] and
    [lower] are Section variables about which nothing is assumed. *)
Require Import Norad.Model.Base Norad.Model.FileName.
From stdpp Require Import gmap.

(** panic sites *)
Definition SITE_99_TRIES : N := 1%N.        (* util.rs: "Could not find a unique file name after 99 tries" *)
Definition SITE_RENAME_UNWRAP : N := 2%N.   (* layer.rs rename_layer: position(old).unwrap() *)
Definition SITE_GLYPH_NEW : N := 3%N.       (* Glyph::new / Name::new_raw on an invalid name (outside the container) *)
Definition SITE_SAVE_EXPECT : N := 4%N.     (* layer.rs save: "all glyphs in contents must exist." *)
Definition SITE_INDEX0 : N := 5%N.          (* layer.rs: self.layers[0] *)
Definition SITE_GLYPH_UNWRAP : N := 6%N.    (* layer.rs rename_glyph: remove_glyph(old).unwrap() *)

Inductive err := Duplicate | Missing | Invalid | ReservedName | NoLayer | SaveErr | LoadErr.
(** what an operation returns: () / Some / None / an error / a panic *)
Inductive out := OOk | OSome | ONone | OErr (e : err) | OPanic (site : N).

Record layer := Layer {
  l_name : str;
  l_path : str;
  l_glyphs : gmap str str;     (* key -> the glyph's own name *)
  l_contents : gmap str str;   (* glyph name -> glif file name *)
  l_pset : gset str;           (* lower-cased file names in use *)
}.
Record state := State {
  layers : list layer;
  lpset : gset str;            (* lower-cased directories of the non-default layers *)
}.

Definition with_glyphs (l : layer) (g : gmap str str) : layer :=
  Layer (l_name l) (l_path l) g (l_contents l) (l_pset l).
Definition with_name (l : layer) (n : str) : layer :=
  Layer n (l_path l) (l_glyphs l) (l_contents l) (l_pset l).
Definition with_path (l : layer) (p : str) : layer :=
  Layer (l_name l) p (l_glyphs l) (l_contents l) (l_pset l).

Inductive op :=
| InsertGlyph (ln g : str)                         (* layers.get_mut(ln)?.insert_glyph(Glyph::new(g)) *)
| RemoveGlyph (ln g : str)
| RenameGlyph (ln old new : str) (overwrite : bool)
| ClearLayer (ln : str)
| RetainGlyphs (ln : str) (keep : list str)         (* retain(|name, _| keep.contains(name)) *)
| EntryOrInsert (ln key g : str)                   (* entry(Name::new(key)?).or_insert(Glyph::new(g)) *)
| EntryRemove (ln key : str)                       (* if let Occupied(e) = entry(key) { e.remove(); } *)
| TouchGlyphs (ln : str)                           (* get_glyph_mut / iter_mut: no structural access *)
| NewLayer (n : str)
| GetOrCreateLayer (n : str)
| RemoveLayer (n : str)
| RenameLayer (old new : str) (overwrite : bool)
| RetainLayers (keep : list str)                    (* retain(|l| keep.contains(l.name())) *)
| RemoveEmptyLayers
| SaveLoad.                                         (* font = Font::load(font.save(tmp)) when both succeed *)

(** what [Font::save] leaves on disk, as far as the containers are concerned:
    layercontents.plist order, and per layer directory its contents.plist *)
Definition dlayer := (str * str * gmap str str)%type.
Definition disk := list dlayer.

Section Containers.
  Variable is_upper : N -> bool.
  Variable lower : str -> str.

  Definition accept_in (taken : gset str) (cand : str) : bool := bool_decide (cand ∉ taken).
  Definition glif_name (g : str) (taken : gset str) : option str :=
    glyph_file_name is_upper lower g (accept_in taken).
  Definition dir_name (n : str) (taken : gset str) : option str :=
    layer_dir_name is_upper lower n (accept_in taken).

  Definition new_layer_value (n p : str) : layer := Layer n p ∅ ∅ ∅.
  Definition default_layer : layer := new_layer_value DEFAULT_LAYER_NAME DEFAULT_GLYPHS_DIRNAME.
  Definition init : state := State [default_layer] ∅.
  Definition is_default (l : layer) : bool := bool_decide (l_path l = DEFAULT_GLYPHS_DIRNAME).

  (** ** Layer *)
  (** [None] = the 99-tries panic (before anything was changed) *)
  Definition insert_glyph (l : layer) (g : str) : option layer :=
    match l_contents l !! g with
    | Some _ => Some (with_glyphs l (<[g := g]> (l_glyphs l)))
    | None =>
        match glif_name g (l_pset l) with
        | None => None
        | Some p => Some (Layer (l_name l) (l_path l) (<[g := g]> (l_glyphs l))
                                (<[g := p]> (l_contents l)) ({[lower p]} ∪ l_pset l))
        end
    end.

  Definition remove_glyph (l : layer) (g : str) : layer :=
    Layer (l_name l) (l_path l) (delete g (l_glyphs l)) (delete g (l_contents l))
          (match l_contents l !! g with Some p => l_pset l ∖ {[lower p]} | None => l_pset l end).

  Definition rename_glyph (l : layer) (old new : str) (overwrite : bool) : layer * out :=
    if negb overwrite && bool_decide (is_Some (l_glyphs l !! new)) then (l, OErr Duplicate)
    else if negb (bool_decide (is_Some (l_glyphs l !! old))) then (l, OErr Missing)
    else if negb (name_validb new) then (l, OErr Invalid)
    else
      let l1 := remove_glyph l old in
      match insert_glyph l1 new with
      | Some l2 => (l2, OOk)
      | None => (l1, OPanic SITE_99_TRIES)
      end.

  Definition clear (l : layer) : layer := Layer (l_name l) (l_path l) ∅ ∅ ∅.

  (** after fix 01f54ac: the index and the taken-set are pruned like [remove_glyph] does *)
  Definition retain_glyphs (l : layer) (keep : list str) : layer :=
    let g' := base.filter (fun kv : str * str => kv.1 ∈ keep) (l_glyphs l) in
    let dropped := base.filter (fun kv : str * str => g' !! kv.1 = None) (l_contents l) in
    Layer (l_name l) (l_path l) g'
          (base.filter (fun kv : str * str => is_Some (g' !! kv.1)) (l_contents l))
          (l_pset l ∖ list_to_set ((fun kv => lower kv.2) <$> map_to_list dropped)).

  (** raw map entry: only the glyph map is touched *)
  Definition entry_or_insert (l : layer) (key g : str) : layer :=
    match l_glyphs l !! key with
    | Some _ => l
    | None => with_glyphs l (<[key := g]> (l_glyphs l))
    end.
  Definition entry_remove (l : layer) (key : str) : layer := with_glyphs l (delete key (l_glyphs l)).

  (** ** LayerContents *)
  Definition has_name (n : str) (l : layer) : bool := bool_decide (l_name l = n).
  Definition get_layer (s : state) (n : str) : option layer := List.find (has_name n) (layers s).
  Fixpoint update_first (n : str) (f : layer -> layer) (ls : list layer) : list layer :=
    match ls with
    | [] => []
    | l :: r => if has_name n l then f l :: r else l :: update_first n f r
    end.
  (** first layer called [n] taken out of the list *)
  Fixpoint remove_first (n : str) (ls : list layer) : option (layer * list layer) :=
    match ls with
    | [] => None
    | l :: r => if has_name n l then Some (l, r)
                else match remove_first n r with
                     | Some (x, r') => Some (x, l :: r')
                     | None => None
                     end
    end.

  Definition new_layer (s : state) (n : str) : state * out :=
    if bool_decide (n = DEFAULT_LAYER_NAME) then (s, OErr ReservedName)
    else if existsb (has_name n) (layers s) then (s, OErr Duplicate)
    else if negb (name_validb n) then (s, OErr Invalid)
    else match dir_name n (lpset s) with
         | None => (s, OPanic SITE_99_TRIES)
         | Some p => (State (layers s ++ [new_layer_value n p]) ({[lower p]} ∪ lpset s), OOk)
         end.

  Definition get_or_create_layer (s : state) (n : str) : state * out :=
    if existsb (has_name n) (layers s) then (s, OOk) else new_layer s n.

  (** never removes index 0 *)
  Definition remove_layer (s : state) (n : str) : state * out :=
    match layers s with
    | [] => (s, ONone)
    | d :: rest =>
        match remove_first n rest with
        | Some (l, rest') => (State (d :: rest') (lpset s ∖ {[lower (l_path l)]}), OSome)
        | None => (s, ONone)
        end
    end.

  Definition rename_layer (s : state) (old new : str) (overwrite : bool) : state * out :=
    if negb overwrite && existsb (has_name new) (layers s) then (s, OErr Duplicate)
    else if negb (existsb (has_name old) (layers s)) then (s, OErr Missing)
    else match layers s with
    | [] => (s, OPanic SITE_INDEX0)
    | d0 :: _ =>
      if bool_decide (new = DEFAULT_LAYER_NAME) && negb (has_name old d0) then (s, OErr ReservedName)
      else if bool_decide (old = new) then (s, OOk)
      else if has_name new d0 then (s, OErr Duplicate)
      else if negb (name_validb new) then (s, OErr Invalid)
      else
        let s1 := if overwrite then fst (remove_layer s new) else s in
        match layers s1 with
        | [] => (s1, OPanic SITE_RENAME_UNWRAP)
        | d :: rest =>
            if has_name old d then (State (with_name d new :: rest) (lpset s1), OOk)
            else match List.find (has_name old) rest with
                 | None => (s1, OPanic SITE_RENAME_UNWRAP)
                 | Some l =>
                     let ps := lpset s1 ∖ {[lower (l_path l)]} in
                     match dir_name new ps with
                     | None => (State (layers s1) ps, OPanic SITE_99_TRIES)
                     | Some p =>
                         (State (d :: update_first old (fun x => with_name (with_path x p) new) rest)
                                ({[lower p]} ∪ ps), OOk)
                     end
                 end
        end
    end.

  (** the taken-set is not pruned (stale entries only cause extra counters) *)
  Definition retain_layers (s : state) (keep : list str) : state :=
    State (List.filter (fun l => is_default l || bool_decide (l_name l ∈ keep)) (layers s)) (lpset s).
  Definition remove_empty_layers (s : state) : state :=
    State (List.filter (fun l => is_default l || negb (bool_decide (l_glyphs l = ∅))) (layers s)) (lpset s).

  Definition on_layer (s : state) (ln : str) (f : layer -> layer * out) : state * out :=
    match get_layer s ln with
    | None => (s, OErr NoLayer)
    | Some l => let '(l', o) := f l in (State (update_first ln (fun _ => l') (layers s)) (lpset s), o)
    end.

  (** ** save and load (layer part) *)
  Inductive save_result := SOk (d : disk) | SErr | SPanic (site : N).
  (** per layer: create_dir fails when the directory exists already; then every entry of the
      index must have its glyph *)
  Fixpoint save_layers (ls : list layer) (dirs : list str) : save_result :=
    match ls with
    | [] => SOk []
    | l :: r =>
        if bool_decide (l_path l ∈ dirs) then SErr
        else if negb (bool_decide (map_Forall (fun k _ => is_Some (l_glyphs l !! k)) (l_contents l)))
        then SPanic SITE_SAVE_EXPECT
        else match save_layers r (l_path l :: dirs) with
             | SOk d => SOk ((l_name l, l_path l, l_contents l) :: d)
             | x => x
             end
    end.
  Definition save (s : state) : save_result := save_layers (layers s) [].

  Definition load_layer (d : dlayer) : layer :=
    let '(n, p, c) := d in
    Layer n p (map_imap (fun k _ => Some k) c) c
          (list_to_set ((fun kv => lower kv.2) <$> map_to_list c)).
  Definition dlayer_names_valid (d : dlayer) : bool :=
    let '(n, _, c) := d in
    name_validb n && bool_decide (map_Forall (fun k _ => name_validb k = true) c).
  Fixpoint split_default (ls : list layer) : option (layer * list layer) :=
    match ls with
    | [] => None
    | l :: r => if is_default l then Some (l, r)
                else match split_default r with
                     | Some (x, r') => Some (x, l :: r')
                     | None => None
                     end
    end.
  (** a single normal path component ([plain_name] of layer.rs, fixes 8d15b4b / 59e280a) *)
  Definition plain_name (p : str) : bool :=
    negb (isnil p) && negb (memb 47%N p) && negb (str_eqb p [DOT]) && negb (str_eqb p [DOT; DOT]).
  (** the checks of [LayerContents::load] on layercontents.plist (fixes 83f6c18, f6784f0: names
      unique, directories unique ignoring case, "public.default" only in "glyphs") and of
      [Layer::load_impl] on contents.plist (fixes afd801a, f6784f0: file names plain and unique
      ignoring case) *)
  Definition dlayer_files_ok (d : dlayer) : bool :=
    bool_decide (map_Forall (fun _ f => plain_name f = true) d.2) &&
    bool_decide (NoDup ((fun kv : str * str => lower kv.2) <$> map_to_list d.2)).
  Definition disk_checked (d : disk) : bool :=
    forallb (fun x => plain_name x.1.2) d &&
    bool_decide (NoDup ((fun x : dlayer => x.1.1) <$> d)) &&
    bool_decide (NoDup ((fun x : dlayer => lower x.1.2) <$> d)) &&
    forallb (fun x : dlayer => negb (bool_decide (x.1.1 = DEFAULT_LAYER_NAME)) ||
                               bool_decide (x.1.2 = DEFAULT_GLYPHS_DIRNAME)) d &&
    forallb dlayer_files_ok d.
  (** [None] = the load fails (invalid name in a plist, a failed check, no layer in "glyphs") *)
  Definition load (d : disk) : option state :=
    if negb (forallb dlayer_names_valid d) then None
    else if negb (disk_checked d) then None
    else match split_default (load_layer <$> d) with
         | None => None
         | Some (x, rest) => Some (State (x :: rest) (list_to_set ((fun l => lower (l_path l)) <$> rest)))
         end.

  (** ** one operation *)
  Definition step (s : state) (o : op) : state * out :=
    match o with
    | InsertGlyph ln g =>
        if negb (name_validb g) then (s, OPanic SITE_GLYPH_NEW)
        else on_layer s ln (fun l => match insert_glyph l g with
                                     | Some l' => (l', OOk)
                                     | None => (l, OPanic SITE_99_TRIES)
                                     end)
    | RemoveGlyph ln g =>
        on_layer s ln (fun l => (remove_glyph l g,
                                 if bool_decide (is_Some (l_glyphs l !! g)) then OSome else ONone))
    | RenameGlyph ln old new ow => on_layer s ln (fun l => rename_glyph l old new ow)
    | ClearLayer ln => on_layer s ln (fun l => (clear l, OOk))
    | RetainGlyphs ln keep => on_layer s ln (fun l => (retain_glyphs l keep, OOk))
    | EntryOrInsert ln key g =>
        if negb (name_validb key) then (s, OErr Invalid)
        else if negb (name_validb g) then (s, OPanic SITE_GLYPH_NEW)
        else on_layer s ln (fun l => (entry_or_insert l key g, OOk))
    | EntryRemove ln key => on_layer s ln (fun l => (entry_remove l key, OOk))
    | TouchGlyphs ln => on_layer s ln (fun l => (l, OOk))
    | NewLayer n => new_layer s n
    | GetOrCreateLayer n => get_or_create_layer s n
    | RemoveLayer n => remove_layer s n
    | RenameLayer old new ow => rename_layer s old new ow
    | RetainLayers keep => (retain_layers s keep, OOk)
    | RemoveEmptyLayers => (remove_empty_layers s, OOk)
    | SaveLoad =>
        match save s with
        | SErr => (s, OErr SaveErr)
        | SPanic site => (s, OPanic site)
        | SOk d => match load d with
                   | Some s' => (s', OOk)
                   | None => (s, OErr LoadErr)
                   end
        end
    end.

  (** a history; [None] when an operation panicked (nothing is claimed about the state after a
      panic that was caught) *)
  Fixpoint run (s : state) (ops : list op) : option state :=
    match ops with
    | [] => Some s
    | o :: r => match step s o with
                | (_, OPanic _) => None
                | (s', _) => run s' r
                end
    end.

  (** ** specification *)
  (** index and map in step, keys are the glyphs' own names, the taken-set is exactly the
      lower-cased image of the index, that image has no duplicates, names are valid [Name]s *)
  Definition LInv (l : layer) : Prop :=
    (forall k, is_Some (l_contents l !! k) <-> is_Some (l_glyphs l !! k)) /\
    (forall k v, l_glyphs l !! k = Some v -> v = k) /\
    (forall p, p ∈ l_pset l <-> exists g q, l_contents l !! g = Some q /\ lower q = p) /\
    (forall g1 g2 q1 q2, l_contents l !! g1 = Some q1 -> l_contents l !! g2 = Some q2 ->
                         lower q1 = lower q2 -> g1 = g2) /\
    (forall k, is_Some (l_contents l !! k) -> name_validb k = true).

  Definition Inv (s : state) : Prop :=
    NoDup (l_name <$> layers s) /\
    (exists d rest, layers s = d :: rest /\
       l_path d = DEFAULT_GLYPHS_DIRNAME /\
       Forall (fun l => l_path l <> DEFAULT_GLYPHS_DIRNAME) rest /\
       Forall (fun l => l_name l <> DEFAULT_LAYER_NAME) rest /\
       Forall (fun l => lower (l_path l) ∈ lpset s) rest /\
       NoDup ((fun l => lower (l_path l)) <$> rest)) /\
    Forall (fun l => name_validb (l_name l) = true) (layers s) /\
    Forall LInv (layers s).

  (** raw entry access that changes the glyph map (known finding: the API hands out the map's
      own entry) *)
  Definition KnownOp (s : state) (o : op) : Prop :=
    match o with
    | EntryOrInsert ln key g =>
        name_validb key = true /\ name_validb g = true /\
        exists l, get_layer s ln = Some l /\ l_glyphs l !! key = None
    | EntryRemove ln key => exists l, get_layer s ln = Some l /\ is_Some (l_glyphs l !! key)
    | _ => False
    end.
  Fixpoint clean (s : state) (ops : list op) : Prop :=
    match ops with
    | [] => True
    | o :: r => ~ KnownOp s o /\ clean (fst (step s o)) r
    end.

  (** what the containers report *)
  Definition report (s : state) : list (str * str * gset str * gmap str str) :=
    (fun l => (l_name l, l_path l, dom (l_glyphs l), l_contents l)) <$> layers s.

  (** C07, container level *)
  Definition glyph_path (s : state) (ln g : str) : option str :=
    match get_layer s ln with Some l => l_contents l !! g | None => None end.
  Definition layer_dir (s : state) (ln : str) : option str :=
    match get_layer s ln with Some l => Some (l_path l) | None => None end.
  Definition distinct_paths (s : state) : Prop :=
    (forall l g1 g2 q1 q2, l ∈ layers s -> l_contents l !! g1 = Some q1 -> l_contents l !! g2 = Some q2 ->
                           lower q1 = lower q2 -> g1 = g2) /\
    NoDup ((fun l => lower (l_path l)) <$> tail (layers s)) /\
    NoDup (l_path <$> layers s).

  (** every file name / directory in the containers was produced by the file-name function for
      the current glyph / layer name (true of fonts built through the API; a loaded font keeps
      the names found on disk) *)
  Definition assigned_layer (l : layer) : Prop :=
    (forall g q, l_contents l !! g = Some q -> exists taken, glif_name g taken = Some q) /\
    (l_path l = DEFAULT_GLYPHS_DIRNAME \/ exists taken, dir_name (l_name l) taken = Some (l_path l)).
  Definition AInv (s : state) : Prop := Forall assigned_layer (layers s).

  (** every file name / directory is a single normal path component (what the checks at load
      demand; true of assigned names and of names that passed those checks) *)
  Definition plain_layer (l : layer) : Prop :=
    (forall g q, l_contents l !! g = Some q -> plain_name q = true) /\
    (l_path l = DEFAULT_GLYPHS_DIRNAME \/ plain_name (l_path l) = true).
  Definition Plain (s : state) : Prop := Forall plain_layer (layers s).

  (** no other directory equals the default layer's "glyphs" ignoring case (the taken-set does
      not hold "glyphs"; loading compares it like every other directory) *)
  Definition sep_layer (l : layer) : Prop :=
    (forall g q, l_contents l !! g = Some q -> True) /\
    (l_path l = DEFAULT_GLYPHS_DIRNAME \/ lower (l_path l) <> lower DEFAULT_GLYPHS_DIRNAME).
  Definition Sep (s : state) : Prop := Forall sep_layer (layers s).

  (** the operation may change the file name of glyph [g] in layer [ln] / the directory of
      layer [ln]: it names them (or clears / filters / replaces their container) *)
  Definition touches_glyph (o : op) (ln g : str) : Prop :=
    match o with
    | RemoveGlyph ln' g' => ln' = ln /\ g' = g
    | RenameGlyph ln' old new _ => ln' = ln /\ (old = g \/ new = g)
    | ClearLayer ln' => ln' = ln
    | RetainGlyphs ln' keep => ln' = ln /\ g ∉ keep
    | RemoveLayer n => n = ln
    | RenameLayer old new _ => old = ln \/ new = ln
    | RetainLayers keep => ln ∉ keep
    | RemoveEmptyLayers => True
    | _ => False
    end.
  Definition touches_layer (o : op) (ln : str) : Prop :=
    match o with
    | RemoveLayer n => n = ln
    | RenameLayer old new _ => old = ln \/ new = ln
    | RetainLayers keep => ln ∉ keep
    | RemoveEmptyLayers => True
    | _ => False
    end.
End Containers.
