(** The serde schema of src/designspace.rs as a table, what the flags of a field mean for the
    round trip, and a flat attribute codec that gives the flags their meaning.

    [ds_schema] is regenerated from the Rust source on every run and proved equal to this constant
    (Anchors/AnchorsOK_C18.v); the checks below are then evaluated on the regenerated table.
    Per struct: name, struct-level [rename], [rename_all], deny_unknown_fields, container [default].
    Per field: Rust name, XML key after rename ([@k] = attribute, otherwise child element), Rust type,
    the [skip_serializing_if] predicate, [default] (empty | default | fn:path), the [with] module.
    Definitions only (laws: Proofs/DsSchemaP.v). *)
Require Export Norad.Model.DsXml.
Open Scope string_scope.

Definition sfield : Type := (string * string * string * string * string * string)%type.
Definition sstruct : Type := (string * string * string * string * string * list sfield)%type.
Definition sf_rust (f : sfield) : string := match f with (a, _, _, _, _, _) => a end.
Definition sf_key (f : sfield) : string := match f with (_, a, _, _, _, _) => a end.
Definition sf_ty (f : sfield) : string := match f with (_, _, a, _, _, _) => a end.
Definition sf_skip (f : sfield) : string := match f with (_, _, _, a, _, _) => a end.
Definition sf_dflt (f : sfield) : string := match f with (_, _, _, _, a, _) => a end.
Definition sf_with (f : sfield) : string := match f with (_, _, _, _, _, a) => a end.
Definition ss_name (s : sstruct) : string := match s with (a, _, _, _, _, _) => a end.
Definition ss_fields (s : sstruct) : list sfield := match s with (_, _, _, _, _, a) => a end.

Definition ds_schema : list sstruct := [
  ("DesignSpaceDocument", "designspace", "", "", "",
   [("format", "@format", "f32", "", "", "");
    ("axes", "axes", "Vec<Axis>", "Vec::is_empty", "", "serde_impls::axes");
    ("rules", "rules", "Rules", "Rules::is_empty", "default", "");
    ("sources", "sources", "Vec<Source>", "Vec::is_empty", "", "serde_impls::sources");
    ("instances", "instances", "Vec<Instance>", "Vec::is_empty", "default", "serde_impls::instances");
    ("lib", "lib", "Dictionary", "Dictionary::is_empty", "default", "serde_plist")]);
  ("Axis", "axis", "", "", "",
   [("name", "@name", "String", "", "", "");
    ("tag", "@tag", "String", "", "", "");
    ("default", "@default", "f32", "", "", "");
    ("hidden", "@hidden", "bool", "is_false", "default", "");
    ("minimum", "@minimum", "Option<f32>", "Option::is_none", "", "");
    ("maximum", "@maximum", "Option<f32>", "Option::is_none", "", "");
    ("values", "@values", "Option<Vec<f32>>", "Option::is_none", "", "");
    ("map", "map", "Option<Vec<AxisMapping>>", "Option::is_none", "", "")]);
  ("AxisMapping", "map", "", "", "",
   [("input", "@input", "f32", "", "", "");
    ("output", "@output", "f32", "", "", "")]);
  ("Rules", "", "", "", "",
   [("processing", "@processing", "RuleProcessing", "", "default", "");
    ("rules", "rule", "Vec<Rule>", "", "default", "")]);
  ("Rule", "", "", "", "",
   [("name", "@name", "Option<String>", "Option::is_none", "", "");
    ("condition_sets", "conditionset", "Vec<ConditionSet>", "", "", "");
    ("substitutions", "sub", "Vec<Substitution>", "", "", "")]);
  ("Substitution", "", "", "", "",
   [("name", "@name", "Name", "", "", "");
    ("with", "@with", "Name", "", "", "")]);
  ("ConditionSet", "", "", "", "",
   [("conditions", "condition", "Vec<Condition>", "", "default", "")]);
  ("Condition", "", "", "", "",
   [("name", "@name", "String", "", "", "");
    ("minimum", "@minimum", "Option<f32>", "Option::is_none", "default", "");
    ("maximum", "@maximum", "Option<f32>", "Option::is_none", "default", "")]);
  ("Source", "source", "", "", "",
   [("familyname", "@familyname", "Option<String>", "Option::is_none", "", "");
    ("stylename", "@stylename", "Option<String>", "Option::is_none", "", "");
    ("name", "@name", "Option<String>", "Option::is_none", "", "");
    ("filename", "@filename", "String", "", "", "");
    ("layer", "@layer", "Option<String>", "Option::is_none", "", "");
    ("location", "location", "Vec<Dimension>", "", "", "serde_impls::location")]);
  ("Instance", "instance", "", "", "",
   [("familyname", "@familyname", "Option<String>", "Option::is_none", "", "");
    ("stylename", "@stylename", "Option<String>", "Option::is_none", "", "");
    ("name", "@name", "Option<String>", "Option::is_none", "", "");
    ("filename", "@filename", "Option<String>", "Option::is_none", "", "");
    ("postscriptfontname", "@postscriptfontname", "Option<String>", "Option::is_none", "", "");
    ("stylemapfamilyname", "@stylemapfamilyname", "Option<String>", "Option::is_none", "", "");
    ("stylemapstylename", "@stylemapstylename", "Option<String>", "Option::is_none", "", "");
    ("location", "location", "Vec<Dimension>", "", "", "serde_impls::location");
    ("lib", "lib", "Dictionary", "Dictionary::is_empty", "default", "serde_plist")]);
  ("Dimension", "dimension", "", "", "",
   [("name", "@name", "String", "", "", "");
    ("uservalue", "@uservalue", "Option<f32>", "Option::is_none", "", "");
    ("xvalue", "@xvalue", "Option<f32>", "Option::is_none", "", "");
    ("yvalue", "@yvalue", "Option<f32>", "Option::is_none", "", "")]) ].
(** enums: name, rename_all, variants, the default variant *)
Definition ds_enums : list (string * string * list string * string) := [("RuleProcessing", "lowercase", ["First"; "Last"], "First")].
(** bodies (blanks removed) of the crate-local functions named in the attributes *)
Definition ds_helpers : list (string * string) := [("Rules::is_empty", "self.rules.is_empty()"); ("is_false", "!(*value)")].
(** the deserialising Helper of the list-wrapper macro: one field, no serde attribute (so: required) *)
Definition ds_wrapper_helper : string := "structHelper{$field_name:Vec<$inner>,}".

(** ** What the flags of one field mean for the round trip *)
Fixpoint prefixb (p s : string) : bool :=
  match p, s with
  | EmptyString, _ => true
  | String a p', String b s' => Ascii.eqb a b && prefixb p' s'
  | _, _ => false
  end.
Definition is_attr_key (k : string) : bool := prefixb "@" k.
Inductive card := COne | COpt | CMany | COptMany.
Definition card_of (ty : string) : card :=
  if prefixb "Option<Vec<" ty then COptMany else if prefixb "Option<" ty then COpt
  else if prefixb "Vec<" ty then CMany else COne.
Definition helper_is (name body : string) (hs : list (string * string)) : bool :=
  existsb (fun h => String.eqb (fst h) name && String.eqb (snd h) body) hs.

(** [VOk]: whatever the writer leaves out, the reader fills in with the same value.  The other
    verdicts name the hypothesis on the VALUE under which that is still true; [VBad]: no such
    hypothesis is known (a skip predicate without a matching read default, an unknown predicate,
    default function or helper module). *)
Inductive verdict := VOk | VNeedNonEmpty | VNeedNotSomeEmpty | VNeedRulesDefault | VBad.
Definition verdict_eqb (a b : verdict) : bool :=
  match a, b with
  | VOk, VOk | VNeedNonEmpty, VNeedNonEmpty | VNeedNotSomeEmpty, VNeedNotSomeEmpty
  | VNeedRulesDefault, VNeedRulesDefault | VBad, VBad => true
  | _, _ => false
  end.
Definition field_verdict (hs : list (string * string)) (f : sfield) : verdict :=
  let skip := sf_skip f in
  let dflt := sf_dflt f in
  let ty := sf_ty f in
  let w := sf_with f in
  let c := card_of ty in
  if is_attr_key (sf_key f) then
    (* an attribute: written as text; an Option reads an absent attribute as None *)
    if negb (String.eqb w "") then VBad
    else if String.eqb skip "" then
      match c with COne => if String.eqb dflt "" || String.eqb dflt "default" then VOk else VBad | _ => VBad end
    else if String.eqb skip "Option::is_none" then
      match c with COpt | COptMany => if prefixb "fn:" dflt then VBad else VOk | _ => VBad end
    else if String.eqb skip "is_false" then
      if String.eqb ty "bool" && String.eqb dflt "default" && helper_is "is_false" "!(*value)" hs then VOk else VBad
    else VBad
  else if String.eqb ty "Dictionary" then
    if negb (String.eqb w "serde_plist") then VBad
    else if String.eqb skip "" then (if prefixb "fn:" dflt then VBad else VOk)
    else if String.eqb skip "Dictionary::is_empty" && String.eqb dflt "default" then VOk else VBad
  else
    match c with
    | CMany =>
        if prefixb "fn:" dflt then VBad
        else if prefixb "serde_impls::" w then
          (* a wrapper element whose Helper requires at least one inner element *)
          if String.eqb skip "Vec::is_empty" then (if String.eqb dflt "default" then VOk else VNeedNonEmpty)
          else if String.eqb skip "" then VNeedNonEmpty else VBad
        else if String.eqb w "" then
          (* bare repeated elements: an empty list writes nothing *)
          if String.eqb skip "" || String.eqb skip "Vec::is_empty"
          then (if String.eqb dflt "default" then VOk else VNeedNonEmpty) else VBad
        else VBad
    | COptMany =>
        if String.eqb w "" && String.eqb skip "Option::is_none" && negb (prefixb "fn:" dflt)
        then VNeedNotSomeEmpty else VBad
    | COne =>
        if negb (String.eqb w "") then VBad
        else if String.eqb skip "" then (if prefixb "fn:" dflt then VBad else VOk)
        else if String.eqb ty "Rules" && String.eqb skip "Rules::is_empty" && String.eqb dflt "default"
                && helper_is "Rules::is_empty" "self.rules.is_empty()" hs
        then VNeedRulesDefault else VBad
    | COpt => VBad
    end.

Fixpoint nodup_str (l : list string) : bool :=
  match l with [] => true | x :: r => negb (existsb (String.eqb x) r) && nodup_str r end.
(** struct level: deny_unknown_fields, container default and rename_all are not modelled (must be
    absent); the XML keys of one struct are distinct *)
Definition struct_ok (s : sstruct) : bool :=
  match s with
  | (_, _, ra, dn, df, fs) =>
      String.eqb ra "" && String.eqb dn "" && String.eqb df "" && nodup_str (map sf_key fs)
  end.
Definition ds_schema_rt_ok (hs : list (string * string)) (s : list sstruct) : bool :=
  forallb struct_ok s &&
  forallb (fun st => forallb (fun f => negb (verdict_eqb (field_verdict hs f) VBad)) (ss_fields st)) s.
(** the hypotheses on values that the flags leave: every field whose verdict is not VOk *)
Definition ds_hyps (hs : list (string * string)) (s : list sstruct) : list (string * string * verdict) :=
  flat_map (fun st => flat_map (fun f => match field_verdict hs f with
                                         | VOk => []
                                         | v => [(ss_name st, sf_rust f, v)]
                                         end) (ss_fields st)) s.
Definition ds_expected_hyps : list (string * string * verdict) :=
  [ ("DesignSpaceDocument", "axes", VNeedNonEmpty); ("DesignSpaceDocument", "rules", VNeedRulesDefault);
    ("DesignSpaceDocument", "sources", VNeedNonEmpty); ("Axis", "map", VNeedNotSomeEmpty);
    ("Rule", "condition_sets", VNeedNonEmpty); ("Rule", "substitutions", VNeedNonEmpty);
    ("Source", "location", VNeedNonEmpty); ("Instance", "location", VNeedNonEmpty) ].

(** ** A flat attribute codec: the meaning of skip_serializing_if / default on attributes.
    A field value is the attribute text, or None (only for Option fields). *)
Record afield := { a_key : string;
                   a_omit : option (option string);     (* the writer leaves out exactly this value *)
                   a_absent : option (option string) }. (* the reader's value for an absent attribute; None = error *)
Definition ov_eqb (a b : option string) : bool :=
  match a, b with None, None => true | Some x, Some y => String.eqb x y | _, _ => false end.
Definition omitted (f : afield) (v : option string) : bool :=
  match a_omit f with Some c => ov_eqb c v | None => false end.
Fixpoint awrite (fs : list afield) (vs : list (option string)) : list (string * string) :=
  match fs, vs with
  | f :: fs', v :: vs' =>
      if omitted f v then awrite fs' vs'
      else match v with Some t => (a_key f, t) :: awrite fs' vs' | None => awrite fs' vs' end
  | _, _ => []
  end.
Fixpoint aread (fs : list afield) (attrs : list (string * string)) : option (list (option string)) :=
  match fs with
  | [] => Some []
  | f :: fs' =>
      match (match attr (a_key f) attrs with Some t => Some (Some t) | None => a_absent f end), aread fs' attrs with
      | Some v, Some vs => Some (v :: vs)
      | _, _ => None
      end
  end.
(** a value None exists only where the writer leaves it out *)
Definition awt (f : afield) (v : option string) : bool :=
  match v with Some _ => true | None => omitted f None end.
Fixpoint awt_all (fs : list afield) (vs : list (option string)) : bool :=
  match fs, vs with
  | [], [] => true
  | f :: fs', v :: vs' => awt f v && awt_all fs' vs'
  | _, _ => false
  end.
Definition afield_ok (f : afield) : bool :=
  match a_omit f with
  | None => true
  | Some c => match a_absent f with Some d => ov_eqb c d | None => false end
  end.
Definition aflat_ok (fs : list afield) : bool := nodup_str (map a_key fs) && forallb afield_ok fs.

(** the attribute fields of a struct of the table as flat fields *)
Definition strip_at1 (k : string) : string := match k with String _ r => r | EmptyString => k end.
Definition attr_view_field (f : sfield) : afield :=
  {| a_key := strip_at1 (sf_key f);
     a_omit := if String.eqb (sf_skip f) "Option::is_none" then Some None
               else if String.eqb (sf_skip f) "is_false" then Some (Some "false") else None;
     a_absent := match card_of (sf_ty f) with
                 | COpt | COptMany => Some None
                 | _ => if String.eqb (sf_dflt f) "default" && String.eqb (sf_ty f) "bool" then Some (Some "false")
                        else None
                 end |}.
Definition attr_view (st : sstruct) : list afield :=
  map attr_view_field (filter (fun f => is_attr_key (sf_key f)) (ss_fields st)).
Definition struct_named (n : string) (s : list sstruct) : sstruct :=
  match find (fun st => String.eqb (ss_name st) n) s with Some st => st | None => (n, "", "", "", "", []) end.
Definition attr_view_of (n : string) : list afield := attr_view (struct_named n ds_schema).
