(** C15 - kerning groups are validated, and legacy kerning is upconverted faithfully.
    Statements only; proofs live in Proofs/GroupsP.v and Proofs/KernUpconvP.v.
    Model: Model/Groups.v (validate_groups, upconvert_kerning, make_unique_group_name and the
    call sites in Font::load_impl / Font::save_impl, as the code is at abb0fdd). *)
Require Import Norad.Model.Base Norad.Model.Groups Norad.Proofs.GroupsP Norad.Proofs.KernUpconvP.
Open Scope N_scope.

(** ** validation *)

(** validate_groups accepts a group map exactly when it satisfies the declarative rule, for ALL
    maps (any size, any names, any member lists). *)
Theorem C15_validate_iff : forall g, validate_groups g = Ok tt <-> groups_ok g.
Proof. exact validate_iff. Qed.

(** it never panics: the outcome is acceptance or one of the two errors *)
Theorem C15_validate_total : forall g, validate_groups g = Ok tt \/ exists e, validate_groups g = Err e.
Proof. exact validate_result. Qed.

(** the rule in the words of the property: in a valid map two first-side (second-side) entries
    never share a glyph *)
Theorem C15_ok_no_shared_glyph : forall g, groups_ok g ->
  forall g1 n1 ms1 g2 n2 ms2 g3 x,
    g = g1 ++ (n1, ms1) :: g2 ++ (n2, ms2) :: g3 ->
    ((side1 n1 /\ side1 n2) \/ (side2 n1 /\ side2 n2)) -> In x ms1 -> In x ms2 -> False.
Proof.
  intros g (_ & H1 & H2) g1 n1 ms1 g2 n2 ms2 g3 x E [[A B]|[A B]] I1 I2.
  - apply side1_spec in A, B. exact (ok_no_shared_glyph K1 g H1 _ _ _ _ _ _ _ x E A B I1 I2).
  - apply side2_spec in A, B. exact (ok_no_shared_glyph K2 g H2 _ _ _ _ _ _ _ x E A B I1 I2).
Qed.

(** Invalid groups are never returned by a load and never written by a save; all others are
    accepted (format 3: returned as they are; format 1/2: see C15_load_legacy_accepts). *)
Theorem C15_load_returns_only_ok : forall v3 g k interned g' k',
  load_gk v3 g k interned = Ok (g', k') -> groups_ok g' /\ (forall g0, g = Some g0 -> groups_ok g0).
Proof. exact load_only_ok. Qed.
Theorem C15_load_refuses_invalid : forall v3 g k interned,
  ~ groups_ok g -> exists e, load_gk v3 (Some g) k interned = Err (LInvalidGroups e).
Proof. exact load_refuses_invalid. Qed.
Theorem C15_load_v3_accepts_iff : forall g k interned,
  groups_ok g <-> load_gk true (Some g) k interned = Ok (g, kern_or_empty k).
Proof. exact load_v3_iff. Qed.
Theorem C15_save_iff : forall g, save_groups g = Ok tt <-> groups_ok g.
Proof. exact validate_iff. Qed.
(** valid legacy groups are converted; the load is refused only when the converted groups
    violate the rule themselves (then they must not be returned, by the first sentence) *)
Theorem C15_load_legacy_accepts : forall g k interned,
  groups_ok g ->
  exists g' k', upconvert_kerning g (kern_or_empty k) interned = Ok (g', k') /\
    ((groups_ok g' /\ load_gk false (Some g) k interned = Ok (g', k')) \/
     (~ groups_ok g' /\ exists e, load_gk false (Some g) k interned = Err (LUpconversionFailure e))).
Proof. exact load_legacy_accepts. Qed.
Theorem C15_load_no_panic : forall v3 g k interned s, load_gk v3 g k interned <> Panic s.
Proof. exact load_no_panic. Qed.

(** ** the unique-name loop *)

(** the fuel |groups|+1 always suffices, and the name returned is not in use and is the base
    name or the base name followed by the least counter >= 1 whose candidate is free *)
Theorem C15_unique_terminates : forall base g,
  exists n, make_unique base g = Some n /\ UniqueOf base g n.
Proof. exact make_unique_spec. Qed.

(** ** the conversion *)

(** it never panics (both unwraps and the loop fuel are unreachable) *)
Theorem C15_upconvert_total : forall g k gs, exists g' k', upconvert_kerning g k gs = Ok (g', k').
Proof. exact upconvert_total. Qed.

(** groups part, unconditionally: originals kept, exactly the groups the text names are
    duplicated under fresh, pairwise distinct names of their side with identical members,
    nothing else is added; the kerning is the input renamed through the two tables *)
Theorem C15_upconvert_groups_meet_spec : forall g k gs g' k',
  upconvert_kerning g k gs = Ok (g', k') ->
  exists r1 r2, upconvert_tables g k gs = Ok (g', r1, r2) /\ k' = rename_kerning r1 r2 k /\
                UpconvertedGroups g k gs r1 r2 g'.
Proof. exact upconvert_groups_meet_spec. Qed.

(** the full relation of the property text, outside the class PairCollision *)
Theorem C15_upconvert_meets_spec : forall g k gs g' k',
  upconvert_kerning g k gs = Ok (g', k') -> ~ PairCollision g k gs -> Upconverted g k gs g' k'.
Proof. exact upconvert_meets_spec. Qed.

(** every pair is rewritten to the new names with its value unchanged, and nothing else is in
    the kerning - when no two keys coincide after renaming *)
Theorem C15_pairs_preserved : forall r1 r2 k,
  no_pair_collision r1 r2 k = true -> PairsRenamed r1 r2 k (rename_kerning r1 r2 k).
Proof. exact pairs_renamed. Qed.

(** even inside the class nothing is invented or altered: pairs can only be lost *)
Theorem C15_pairs_sound : forall r1 r2 k a' b' v,
  pair_in (rename_kerning r1 r2 k) a' b' v ->
  exists a b row, In (a, row) k /\ In (b, v) row /\ a' = ren r1 a /\ b' = ren r2 b.
Proof. exact pairs_sound. Qed.

(** ** the property at the call site, its full-strength form and the two refutations *)

(** Full strength: whatever a format 1/2 load returns is the conversion the glyph names demand
    (the interner holds at least the glyph names). *)
Definition C15_full : Prop :=
  forall g k interned glyphs g' k',
    incl glyphs interned ->
    load_gk false (Some g) k interned = Ok (g', k') ->
    Upconverted g (kern_or_empty k) glyphs g' k'.

(** refuted by a kerning key equal to a freshly made group name (pair (A, y) = 1 is lost) *)
Theorem C15_refuted_PairCollision : ~ C15_full.
Proof.
  intro F. apply pc_not_upconverted.
  exact (F pc_groups (Some pc_kerning) [] [] _ _ (fun x H => H) pc_result).
Qed.
(** refuted by a group name that is in the interner without being a glyph name (F21) *)
Theorem C15_refuted_F21 : ~ C15_full.
Proof.
  intro F. apply f21_not_upconverted.
  refine (F f21_groups (Some f21_kerning) [nG; na] [na] _ _ _ f21_result).
  intros x [<-|[]]. right. left. reflexivity.
Qed.
(** both witnesses lie in their class, each outside the other *)
Example C15_witnesses_in_class :
  PairCollision pc_groups pc_kerning [] /\ ~ ClassF21 pc_groups pc_kerning [] [] /\
  ClassF21 f21_groups f21_kerning [nG; na] [na] /\ ~ PairCollision f21_groups f21_kerning [nG; na].
Proof.
  split; [exact pc_in_class|]. split; [intro H; apply H; split; intro c; reflexivity|].
  split; [exact f21_in_class|]. vm_compute. discriminate.
Qed.

(** the positive theorem under exactly the two class hypotheses *)
Theorem C15_load_legacy_meets_spec : forall g k interned glyphs g' k',
  load_gk false (Some g) k interned = Ok (g', k') ->
  ~ ClassF21 g (kern_or_empty k) interned glyphs ->
  ~ PairCollision g (kern_or_empty k) interned ->
  Upconverted g (kern_or_empty k) glyphs g' k'.
Proof. exact load_legacy_spec. Qed.

(** the executable class predicate used by the correspondence run decides ClassF21 *)
Theorem C15_same_candsb_decides : forall g k a b, same_candsb g k a b = true <-> ~ ClassF21 g k a b.
Proof.
  intros g k a b. rewrite same_candsb_spec. split; [intros S H; exact (H S) | apply not_ClassF21].
Qed.

(** ** non-vacuity *)

(** validation: one glyph in two first-side groups is refused, in a first- and a second-side
    group accepted; the bare prefix is refused *)
Example C15_validate_examples :
  let a := [97] in let x := [120] in
  ~ groups_ok [(K1 ++ a, [x]); (K1 ++ x, [x])] /\
  groups_ok [(K1 ++ a, [x]); (K2 ++ a, [x])] /\
  ~ groups_ok [(K2, [])] /\
  validate_groups [(K1 ++ a, [x]); (K1 ++ x, [x])] = Err (Overlap x (K1 ++ x)).
Proof.
  cbv zeta. split; [|split; [|split]].
  - intro H. apply validate_iff in H. vm_compute in H. discriminate.
  - apply validate_iff. vm_compute. reflexivity.
  - intro H. apply validate_iff in H. vm_compute in H. discriminate.
  - vm_compute. reflexivity.
Qed.

(** conversion: groups A and @MMK_L_A collide after prefixing with an existing public.kern1.A;
    the hypotheses of C15_upconvert_meets_spec hold and the counters 1 and 2 are handed out in
    ascending order of the old names ("@MMK_L_A" < "A") *)
Example C15_upconvert_example :
  let A := [65] in let x := [120] in let y := [121] in
  let g := [(A, [x]); (MMKL ++ A, [y]); (K1 ++ A, [])] in
  let k := [(A, [(MMKL ++ A, 7)])] in
  upconvert_kerning g k [] =
    Ok ([(A, [x]); (MMKL ++ A, [y]); (K1 ++ A, []); (K1 ++ A ++ [49], [y]); (K1 ++ A ++ [50], [x]);
         (K2 ++ MMKL ++ A, [y])],
        [(K1 ++ A ++ [50], [(K2 ++ MMKL ++ A, 7)])]) /\
  ~ PairCollision g k [].
Proof. cbv zeta. split; [vm_compute; reflexivity | vm_compute; discriminate]. Qed.
