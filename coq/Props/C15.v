(** C15 - kerning groups are validated, and legacy kerning is upconverted faithfully.
    Statements only; proofs live in Proofs/GroupsP.v and Proofs/KernUpconvP.v.
    Model: Model/Groups.v (validate_groups, upconvert_kerning, make_unique_group_name and the
    call sites in Font::load_impl / Font::save_impl, as the code is at 090c163). *)
Require Import Norad.Model.Base Norad.Model.Groups Norad.Proofs.GroupsP Norad.Proofs.KernUpconvP.
Open Scope N_scope.

(** ** validation *)

(** validate_groups accepts a group map exactly when it satisfies the declarative rule, for ALL
    maps (any size, any names, any member lists). *)
Theorem C15_validate_iff : forall g, validate_groups g = Ok tt <-> groups_ok g.
Proof. exact validate_iff. Qed.

(** it never panics: the outcome is acceptance or one of the two errors *)
Theorem C15_validate_total : forall g, validate_groups g = Ok tt \/ exists e, validate_groups g = Err e.
Proof. exact validate_result. Qed.

(** the rule in the words of the property: in a valid map two first-side (second-side) entries
    never share a glyph *)
Theorem C15_ok_no_shared_glyph : forall g, groups_ok g ->
  forall g1 n1 ms1 g2 n2 ms2 g3 x,
    g = g1 ++ (n1, ms1) :: g2 ++ (n2, ms2) :: g3 ->
    ((side1 n1 /\ side1 n2) \/ (side2 n1 /\ side2 n2)) -> In x ms1 -> In x ms2 -> False.
Proof.
  intros g (_ & H1 & H2) g1 n1 ms1 g2 n2 ms2 g3 x E [[A B]|[A B]] I1 I2.
  - apply side1_spec in A, B. exact (ok_no_shared_glyph K1 g H1 _ _ _ _ _ _ _ x E A B I1 I2).
  - apply side2_spec in A, B. exact (ok_no_shared_glyph K2 g H2 _ _ _ _ _ _ _ x E A B I1 I2).
Qed.

(** Invalid groups are never returned by a load and never written by a save; all others are
    accepted (format 3: returned as they are; format 1/2: see C15_load_legacy_accepts). *)
Theorem C15_load_returns_only_ok : forall v3 g k glyphs g' k',
  load_gk v3 g k glyphs = Ok (g', k') -> groups_ok g' /\ (forall g0, g = Some g0 -> groups_ok g0).
Proof. exact load_only_ok. Qed.
Theorem C15_load_refuses_invalid : forall v3 g k glyphs,
  ~ groups_ok g -> exists e, load_gk v3 (Some g) k glyphs = Err (LInvalidGroups e).
Proof. exact load_refuses_invalid. Qed.
Theorem C15_load_v3_accepts_iff : forall g k glyphs,
  groups_ok g <-> load_gk true (Some g) k glyphs = Ok (g, kern_or_empty k).
Proof. exact load_v3_iff. Qed.
Theorem C15_save_iff : forall g, save_groups g = Ok tt <-> groups_ok g.
Proof. exact validate_iff. Qed.
(** valid legacy groups are converted; the load is refused only when the converted groups
    violate the rule themselves (then they must not be returned, by the first sentence) *)
Theorem C15_load_legacy_accepts : forall g k glyphs,
  groups_ok g ->
  exists g' k', upconvert_kerning g (kern_or_empty k) glyphs = Ok (g', k') /\
    ((groups_ok g' /\ load_gk false (Some g) k glyphs = Ok (g', k')) \/
     (~ groups_ok g' /\ exists e, load_gk false (Some g) k glyphs = Err (LUpconversionFailure e))).
Proof. exact load_legacy_accepts. Qed.
Theorem C15_load_no_panic : forall v3 g k glyphs s, load_gk v3 g k glyphs <> Panic s.
Proof. exact load_no_panic. Qed.

(** ** the unique-name loop *)

(** the fuel |groups|+|kerning keys of the side|+1 always suffices, and the name returned is
    neither a group name nor a kerning key of the side and is the base name or the base name
    followed by the least counter >= 1 whose candidate is free *)
Theorem C15_unique_terminates : forall base g kk,
  exists n, make_unique base g kk = Some n /\ UniqueOf base (keys g ++ kk) n.
Proof. exact make_unique_spec. Qed.

(** ** the conversion *)

(** it never panics (both unwraps and the loop fuel are unreachable) *)
Theorem C15_upconvert_total : forall g k gs, exists g' k', upconvert_kerning g k gs = Ok (g', k').
Proof. exact upconvert_total. Qed.

(** groups part: originals kept, exactly the groups the text names are duplicated under
    fresh, pairwise distinct names of their side with identical members, nothing else is added;
    the new names also avoid the kerning keys of their side; the kerning is the input renamed
    through the two tables *)
Theorem C15_upconvert_groups_meet_spec : forall g k gs g' k',
  upconvert_kerning g k gs = Ok (g', k') ->
  exists r1 r2, upconvert_tables g k gs = Ok (g', r1, r2) /\ k' = rename_kerning r1 r2 k /\
                UpconvertedGroups g k gs r1 r2 g' /\ TablesFresh k r1 r2.
Proof. exact upconvert_groups_meet_spec. Qed.

(** the full relation of the property text, for every groups/kerning/glyph-set triple (the
    kerning being a map of maps) *)
Theorem C15_upconvert_meets_spec : forall g k gs g' k',
  wf_kerning k -> upconvert_kerning g k gs = Ok (g', k') -> Upconverted g k gs g' k'.
Proof. exact upconvert_meets_spec. Qed.

(** every pair is rewritten to the new names with its value unchanged, and nothing else is in
    the kerning: no two kerning keys coincide after renaming *)
Theorem C15_pairs_preserved : forall g k gs g' r1 r2,
  wf_kerning k -> upconvert_tables g k gs = Ok (g', r1, r2) ->
  PairsRenamed r1 r2 k (rename_kerning r1 r2 k).
Proof.
  intros g k gs g' r1 r2 W T. apply pairs_renamed.
  destruct (upconvert_tables_spec g k gs) as (g2 & s1 & s2 & T' & U & F). rewrite T in T'.
  injection T' as <- <- <-. exact (no_collision g k gs r1 r2 g' W U F).
Qed.

(** for any association list nothing is invented or altered *)
Theorem C15_pairs_sound : forall r1 r2 k a' b' v,
  pair_in (rename_kerning r1 r2 k) a' b' v ->
  exists a b row, In (a, row) k /\ In (b, v) row /\ a' = ren r1 a /\ b' = ren r2 b.
Proof. exact pairs_sound. Qed.

(** ** the property at the call site: whatever a format 1/2 load returns is the conversion the
    glyph names of the loaded layers demand *)
Theorem C15_load_legacy_meets_spec : forall g k glyphs g' k',
  wf_kerning (kern_or_empty k) ->
  load_gk false (Some g) k glyphs = Ok (g', k') ->
  Upconverted g (kern_or_empty k) glyphs g' k'.
Proof. exact load_legacy_spec. Qed.

(** the witnesses of the two repaired defects (PairCollision 3ac97c0, F21 090c163) now satisfy
    the relation: both pairs survive; the group G is converted *)
Example C15_former_witnesses :
  Upconverted pc_groups pc_kerning [] [(nA, [nx]); (K1 ++ nA ++ [49], [nx])]
              [(K1 ++ nA, [(ny, 2)]); (K1 ++ nA ++ [49], [(ny, 1)])] /\
  Upconverted f21_groups f21_kerning [na] [(nG, [nx]); (K1 ++ nG, [nx])] [(K1 ++ nG, [(ny, 5)])].
Proof.
  split.
  - exact (load_legacy_spec pc_groups (Some pc_kerning) [] _ _ pc_wf pc_result).
  - exact (load_legacy_spec f21_groups (Some f21_kerning) [na] _ _ f21_wf f21_result).
Qed.

(** ** non-vacuity *)

(** validation: one glyph in two first-side groups is refused, in a first- and a second-side
    group accepted; the bare prefix is refused *)
Example C15_validate_examples :
  let a := [97] in let x := [120] in
  ~ groups_ok [(K1 ++ a, [x]); (K1 ++ x, [x])] /\
  groups_ok [(K1 ++ a, [x]); (K2 ++ a, [x])] /\
  ~ groups_ok [(K2, [])] /\
  validate_groups [(K1 ++ a, [x]); (K1 ++ x, [x])] = Err (Overlap x (K1 ++ x)).
Proof.
  cbv zeta. split; [|split; [|split]].
  - intro H. apply validate_iff in H. vm_compute in H. discriminate.
  - apply validate_iff. vm_compute. reflexivity.
  - intro H. apply validate_iff in H. vm_compute in H. discriminate.
  - vm_compute. reflexivity.
Qed.

(** conversion: groups A and @MMK_L_A collide after prefixing with an existing public.kern1.A;
    the hypotheses of C15_upconvert_meets_spec hold and the counters 1 and 2 are handed out in
    ascending order of the old names ("@MMK_L_A" < "A") *)
Example C15_upconvert_example :
  let A := [65] in let x := [120] in let y := [121] in
  let g := [(A, [x]); (MMKL ++ A, [y]); (K1 ++ A, [])] in
  let k := [(A, [(MMKL ++ A, 7)])] in
  upconvert_kerning g k [] =
    Ok ([(A, [x]); (MMKL ++ A, [y]); (K1 ++ A, []); (K1 ++ A ++ [49], [y]); (K1 ++ A ++ [50], [x]);
         (K2 ++ MMKL ++ A, [y])],
        [(K1 ++ A ++ [50], [(K2 ++ MMKL ++ A, 7)])]) /\
  wf_kerning k.
Proof.
  cbv zeta. split; [vm_compute; reflexivity|]. split.
  - apply nodupb_spec. vm_compute. reflexivity.
  - intros e [<-|[]]. apply nodupb_spec. vm_compute. reflexivity.
Qed.
