(** C15 - kerning groups are validated, and legacy kerning is upconverted faithfully.
    Statements only; proofs live in Proofs/GroupsP.v. *)
Require Import Norad.Model.Base Norad.Model.Groups Norad.Proofs.GroupsP.
Open Scope N_scope.

(** validate_groups accepts a group map exactly when it satisfies the declarative rule, for ALL
    maps (any size, any names, any member lists). *)
Theorem C15_validate_iff : forall g, validate_groups g = Ok tt <-> groups_ok g.
Proof. exact validate_iff. Qed.

(** it never panics: the outcome is acceptance or one of the two errors *)
Theorem C15_validate_total : forall g, validate_groups g = Ok tt \/ exists e, validate_groups g = Err e.
Proof. exact validate_result. Qed.

(** the rule in the words of the property: in a valid map two first-side (second-side) entries
    never share a glyph *)
Theorem C15_ok_no_shared_glyph : forall g, groups_ok g ->
  forall g1 n1 ms1 g2 n2 ms2 g3 x,
    g = g1 ++ (n1, ms1) :: g2 ++ (n2, ms2) :: g3 ->
    ((side1 n1 /\ side1 n2) \/ (side2 n1 /\ side2 n2)) -> In x ms1 -> In x ms2 -> False.
Proof.
  intros g (_ & H1 & H2) g1 n1 ms1 g2 n2 ms2 g3 x E [[A B]|[A B]] I1 I2.
  - apply side1_spec in A, B. exact (ok_no_shared_glyph K1 g H1 _ _ _ _ _ _ _ x E A B I1 I2).
  - apply side2_spec in A, B. exact (ok_no_shared_glyph K2 g H2 _ _ _ _ _ _ _ x E A B I1 I2).
Qed.

(** Non-vacuity: one glyph in two first-side groups is refused, in a first- and a second-side
    group accepted; the bare prefix is refused. *)
Example C15_validate_examples :
  let a := [97] in let x := [120] in
  ~ groups_ok [(K1 ++ a, [x]); (K1 ++ x, [x])] /\
  groups_ok [(K1 ++ a, [x]); (K2 ++ a, [x])] /\
  ~ groups_ok [(K2, [])] /\
  validate_groups [(K1 ++ a, [x]); (K1 ++ x, [x])] = Err (Overlap x (K1 ++ x)).
Proof.
  cbv zeta. split; [|split; [|split]].
  - intro H. apply validate_iff in H. vm_compute in H. discriminate.
  - apply validate_iff. vm_compute. reflexivity.
  - intro H. apply validate_iff in H. vm_compute in H. discriminate.
  - vm_compute. reflexivity.
Qed.
