(** C10 - loading and saving are deterministic.
    Statements only; proofs in Proofs/DetermP.v, Proofs/StoreWriteP.v, Proofs/KernUpconvP.v.

    Since the fix commits a0f3bc1 / abb0fdd the upconversion iterates sorted collections only:
    the models (Model/Groups.v) take no iteration order, so their results are functions of their
    arguments by construction.  What remains hashed in norad (inventory: Model/HashSites.v,
    regenerated from the source on every run) is either only queried - covered by the
    membership theorems below - or iterated by the store-writing loops of Font::save, whose
    iteration order is an explicit argument here (a list, any permutation of the entries). *)
Require Import Norad.Model.Base Norad.Model.Groups Norad.Model.StoreWrite.
Require Import Norad.Proofs.GroupsP Norad.Proofs.KernUpconvP Norad.Proofs.StoreWriteP Norad.Proofs.DetermP.
Open Scope N_scope.

(** ** sets that are only queried *)

(** generic: two representations of a set with the same members answer [contains] alike, and
    stay so after the same [insert] *)
Theorem C10_membership_only : forall s s' x,
  same_members s s' -> memb x s = memb x s' /\ same_members (x :: s) (x :: s').
Proof. intros s s' x H. split; [apply memb_same_members | apply same_members_cons]; exact H. Qed.

(** the glyph-name set (NameList's HashSet) influences the conversion only through membership *)
Theorem C10_upconvert_glyphset_membership_only : forall g k gs gs',
  same_members gs gs' -> upconvert_kerning g k gs = upconvert_kerning g k gs'.
Proof. exact upconvert_glyphset_membership_only. Qed.

(** the two seen-sets of validate_groups (HashSets) influence it only through membership *)
Theorem C10_validate_membership_only : forall g s1 s1' s2 s2',
  same_members s1 s1' -> same_members s2 s2' -> validate_from s1 s2 g = validate_from s1' s2' g.
Proof. exact validate_seen_membership_only. Qed.

(** the old-name -> new-name tables (HashMaps, filled in loop order, only asked [get]): any
    arrangement of the same entries renames the kerning alike *)
Theorem C10_upconvert_order_independent : forall r1 r1' r2 r2' k,
  Permutation r1 r1' -> NoDup (keys r1) -> Permutation r2 r2' -> NoDup (keys r2) ->
  rename_kerning r1 r2 k = rename_kerning r1' r2' k.
Proof. exact rename_table_order_independent. Qed.

(** ** sorted maps are canonical *)

(** a BTreeMap built from the same entries in any order is the same sequence: groups, kerning,
    contents and the feature blocks are iterated (and written) in one order only *)
Theorem C10_btreemap_canonical : forall V (l l' : list (name * V)),
  Permutation l l' -> NoDup (keys l) -> of_list l = of_list l'.
Proof. exact btreemap_canonical. Qed.

(** UFO 1 feature blocks without an order list: the text does not depend on the order in which
    lib.plist lists (or a hashed collection would yield) the blocks *)
Theorem C10_feature_text_order_independent : forall classes (l l' : list (name * str)),
  Permutation l l' -> NoDup (keys l) ->
  feature_text classes None (Some (of_list l)) = feature_text classes None (Some (of_list l')).
Proof. exact feature_text_order_independent. Qed.

(** ** the store-writing loops of Font::save *)

(** writes to pairwise distinct, prefix-free paths commute: whatever order the HashMap yields,
    the loop fails or succeeds alike and leaves the same directories and the same files *)
Theorem C10_store_write_commutes : forall l l' s,
  Permutation l l' -> prefix_free l -> orel (write_all l s) (write_all l' s).
Proof. exact store_write_commutes. Qed.

(** "all entries loaded" / "some key lies below the new one" ([all] / [any] over the keys) *)
Theorem C10_all_any_order_independent : forall (A : Type) (f : A -> bool) l l',
  Permutation l l' -> forallb f l = forallb f l' /\ existsb f l = existsb f l'.
Proof. intros A f l l' P. split; [apply forallb_perm | apply existsb_perm]; exact P. Qed.

(** ** non-vacuity *)
Example C10_store_example :
  let a := [[97]; [98]] in let c := [[99]] in
  let l := [(a, [1]); (c, [2])] in let l' := [(c, [2]); (a, [1])] in
  Permutation l l' /\ prefix_free l /\
  write_all l ([], []) = Some ([[[97]]], [(c, [2]); (a, [1])]) /\
  write_all l' ([], []) = Some ([[[97]]], [(a, [1]); (c, [2])]) /\
  (* a key that is an ancestor of another one is what the hypothesis excludes: the outcome
     then depends on the order *)
  write_all [([[97]], [1]); (a, [2])] ([], []) = None.
Proof.
  cbv zeta. split; [apply perm_swap|]. split.
  - constructor; [constructor; [split; reflexivity | constructor] | constructor; [constructor | constructor]].
  - split; [reflexivity|]. split; reflexivity.
Qed.

Example C10_feature_example :
  let l := [([107; 101; 114; 110], [75]); ([97; 97; 108; 116], [65])] in   (* kern -> "K", aalt -> "A" *)
  feature_text (Some [67]) None (Some (of_list l)) = [67; 10; 65; 75] /\
  feature_text None (Some [[107; 101; 114; 110]; [120]]) (Some (of_list l)) = [10; 75].
Proof. split; reflexivity. Qed.
