(** C20 — contour-to-path and transform conversions follow the glif drawing rules.
    Statements only; proofs live in Proofs/PathP.v.

    The path theorems are stated over an abstract point type [P] with an arbitrary midpoint
    function, the transform theorems over an arbitrary carrier with an addition and a
    multiplication: they hold in particular for IEEE doubles (arbitrary coordinates, NaN and
    infinities included).  "Contours the parser accepts" are the [legal] ones (theorem
    C11_accepts_iff_legal).  DESIGN finding F11 (curve/qcurve without off-curves, off-curve-only
    contours) was repaired in norad commit f6b6475; the model is the repaired code and the
    theorem holds at full strength, without a known class. *)
Require Import Norad.Model.Base Norad.Model.Contour Norad.Model.Path Norad.Proofs.PathP.
Local Open Scope nat_scope.

(** For ALL legal contours the conversion succeeds and returns exactly the outline the
    specification defines ([spec_path]: start point; one segment per on-curve point, of the
    kind its preceding off-curves call for; implied on-curve points; closure; the
    off-curve-only contour). *)
Theorem C20_path_meets_spec : forall (P : Type) (mid : P -> P -> P) (c : list (point P)),
  legal (types P c) -> to_path P mid c = Ok (spec_path P mid c).
Proof. exact path_meets_spec. Qed.

(** The same in the words of the property text, which does not fix the start point of a closed
    contour: the result is one of the outlines the specification allows ([valid_outlines]: any
    on-curve point of a closed contour may be the start). This is the predicate the run-time
    oracle evaluates on the implementation's paths. *)
Theorem C20_path_is_outline : forall (P : Type) (mid : P -> P -> P) (c : list (point P)),
  legal (types P c) -> exists path, to_path P mid c = Ok path /\ In path (valid_outlines P mid c).
Proof. exact path_is_outline. Qed.

Theorem C20_never_errors_on_legal : forall (P : Type) (mid : P -> P -> P) (c : list (point P)),
  legal (types P c) -> exists path, to_path P mid c = Ok path.
Proof. exact never_errors_on_legal. Qed.

(** The path starts at the move point of an open contour (index 0) or at an on-curve point of
    a closed one. *)
Theorem C20_starts_at : forall (P : Type) (mid : P -> P -> P) (c : list (point P)),
  legal (types P c) -> forallb (offc P) c = false ->
  exists s p rest, nth_error c s = Some p /\ onc P p = true /\
    (is_closed (types P c) = false -> s = 0) /\
    to_path P mid c = Ok (MoveTo (pos P p) :: rest).
Proof. exact starts_at. Qed.

(** One non-empty segment per on-curve point, ending at that point, in contour order:
    after the move point for an open contour ... *)
Theorem C20_on_curve_order_open :
  forall (P : Type) (mid : P -> P -> P) (p0 : point P) (r : list (point P)),
  ptyp P p0 = Move -> legal (types P (p0 :: r)) ->
  exists segs, to_path P mid (p0 :: r) = Ok (MoveTo (pos P p0) :: concat segs) /\
               Forall2 (ends_at P) segs (filter (onc P) r).
Proof. exact on_curve_order_open. Qed.

(** ... and, for a closed contour, in cyclic contour order after the start point [s], the start
    point itself coming last. *)
Theorem C20_on_curve_order : forall (P : Type) (mid : P -> P -> P) (c : list (point P)),
  is_closed (types P c) = true -> forallb (offc P) c = false -> legal (types P c) ->
  exists s p segs, nth_error c s = Some p /\ onc P p = true /\
    to_path P mid c = Ok (MoveTo (pos P p) :: concat segs) /\
    Forall2 (ends_at P) segs (filter (onc P) (rot (S s) c)).
Proof. exact on_curve_order_closed. Qed.

(** A closed contour's path comes back to its start point (also when all points are off-curve). *)
Theorem C20_returns_to_start : forall (P : Type) (mid : P -> P -> P) (c : list (point P)),
  c <> [] -> is_closed (types P c) = true -> legal (types P c) ->
  exists s rest, to_path P mid c = Ok (MoveTo s :: rest) /\ rest <> [] /\ last_end P rest = Some s.
Proof. exact returns_to_start. Qed.

(** No point is lost: all points of the contour, in (cyclic) contour order, are a subsequence
    of the points the path elements mention. *)
Theorem C20_no_point_lost : forall (P : Type) (mid : P -> P -> P) (c : list (point P)),
  legal (types P c) ->
  exists k path, to_path P mid c = Ok path /\
                 subseq (map (pos P) (rot k c)) (path_points P path).
Proof. exact no_point_lost. Qed.

Theorem C20_no_point_lost_In :
  forall (P : Type) (mid : P -> P -> P) (c : list (point P)) (path : list (pathel P)),
  legal (types P c) -> to_path P mid c = Ok path ->
  forall p, In p c -> In (pos P p) (path_points P path).
Proof. exact no_point_lost_In. Qed.

(** Transform of a point: the formula of the property text, for any carrier (F, +, x). *)
Theorem C20_transform_formula : forall (F : Type) (add mul : F -> F -> F) (t : affine F) (x y : F),
  transform F add mul t (x, y) =
  (add (add (mul (x_scale t) x) (mul (yx_scale t) y)) (x_offset t),
   add (add (mul (xy_scale t) x) (mul (y_scale t) y)) (y_offset t)).
Proof. exact transform_formula. Qed.

(** Same expression tree as [kurbo::Affine * Point] applied to the converted transform. *)
Theorem C20_transform_eq_kurbo :
  forall (F : Type) (add mul : F -> F -> F) (t : affine F) (p : F * F),
  kurbo_apply F add mul (to_kurbo F t) p = transform F add mul t p.
Proof. exact transform_eq_kurbo. Qed.

(** Converting to kurbo and back is the identity (and the other way round). *)
Theorem C20_affine_roundtrip : forall (F : Type) (t : affine F), from_kurbo F (to_kurbo F t) = t.
Proof. exact affine_roundtrip. Qed.
Theorem C20_kurbo_roundtrip : forall (F : Type) (k : kaffine F), to_kurbo F (from_kurbo F k) = k.
Proof. exact kurbo_roundtrip. Qed.

(** Over exact arithmetic the transform is an affine action: composing the matrices composes
    the maps, and the identity transform is the identity map. *)
Theorem C20_transform_Z_action : forall (t2 t1 : affine Z) (p : Z * Z),
  transform Z Z.add Z.mul (zcompose t2 t1) p
  = transform Z Z.add Z.mul t2 (transform Z Z.add Z.mul t1 p).
Proof. exact transform_Z_action. Qed.

(** Non-vacuity, over integer coordinates with mid = componentwise sum (any function will do):
    a closed contour whose off-curve run wraps around the end; the three shapes of F11 (curve
    and qcurve without off-curves, an off-curve-only contour) are legal and drawn. *)
(** [ZP], [zsum], [zc]: integer points, componentwise sum, contour from (type, x, y) triples (Proofs/PathP.v) *)

Example C20_wraparound :
  let c := zc [(Off, 1, 10); (Curve, 2, 20); (Line, 3, 30); (Off, 4, 40)]%Z in
  legal (types ZP c) /\
  to_path ZP zsum c = Ok [MoveTo (3, 30); CurveTo (4, 40) (1, 10) (2, 20); LineTo (3, 30)]%Z.
Proof. split; [apply Norad.Proofs.ContourP.legalb_spec|]; vm_compute; reflexivity. Qed.

Example C20_F11_shapes_drawn :
  let c1 := zc [(Line, 1, 10); (Curve, 2, 20); (QCurve, 3, 30)]%Z in
  let c2 := zc [(Off, 1, 10); (Off, 2, 20); (Off, 4, 40)]%Z in
  legal (types ZP c1) /\ legal (types ZP c2) /\
  to_path ZP zsum c1 = Ok [MoveTo (3, 30); LineTo (1, 10); LineTo (2, 20); LineTo (3, 30)]%Z /\
  to_path ZP zsum c2 = Ok [MoveTo (5, 50); QuadTo (1, 10) (3, 30); QuadTo (2, 20) (6, 60);
                           QuadTo (4, 40) (5, 50)]%Z.
Proof.
  split; [|split; [|split]]; try (apply Norad.Proofs.ContourP.legalb_spec); vm_compute; reflexivity.
Qed.

Example C20_qcurve_implied_points :
  let c := zc [(Move, 0, 0); (Off, 1, 10); (Off, 2, 20); (Off, 4, 40); (QCurve, 8, 80)]%Z in
  legal (types ZP c) /\
  to_path ZP zsum c = Ok [MoveTo (0, 0); QuadTo (1, 10) (3, 30); QuadTo (2, 20) (6, 60);
                          QuadTo (4, 40) (8, 80)]%Z.
Proof. split; [apply Norad.Proofs.ContourP.legalb_spec|]; vm_compute; reflexivity. Qed.

Example C20_transform_cross_terms :
  transform Z Z.add Z.mul (mkaffine 2 3 5 7 11 13)%Z (1, 10)%Z = (2 * 1 + 5 * 10 + 11, 3 * 1 + 7 * 10 + 13)%Z.
Proof. reflexivity. Qed.
