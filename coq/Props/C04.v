(** C04 — load, save, load again: foreign and legacy input is normalised without loss.
    Statements only; proofs live in Proofs/FontRTP.v and Proofs/FontToyP.v. *)
Require Import Norad.Model.Base Norad.Model.FontRT Norad.Model.FontToy Norad.Model.FontNum
               Norad.Proofs.FontRTP Norad.Proofs.FontToyP Norad.Proofs.FontNumP.
Open Scope N_scope.

(** whatever the format of the input (1, 2 or 3), a loaded font says format 3 *)
Theorem C04_legacy_becomes_v3 : forall (S : sig) (t : tree S) (f : font S),
  load S t = Ok f -> m_version (f_meta S f) = 3.
Proof. exact load_version_3. Qed.

(** what is written is always format 3, with norad's creator tag and the font's minor version.
    (That every glif says format 2 is a fact of the glif encoder, C02; the check observes it.) *)
Theorem C04_output_is_v3 : forall (S : sig), sig_ok S -> forall o (f : font S) (t : tree S),
  font_valid S f -> save S o f = Ok t ->
  exists mc m, t_meta S t = Some mc /\ dec (P_meta S) mc = Some m /\ m_version m = 3 /\
               m_creator m = Some NORAD_CREATOR /\ m_minor m = m_minor (f_meta S f).
Proof. exact output_is_v3. Qed.

(** the fixed point: a loaded font that is valid is saved and loaded again as an equal font *)
Theorem C04_fixed_point : forall (S : sig), sig_ok S -> forall o (t : tree S) (f : font S),
  load S t = Ok f -> font_valid S f ->
  exists t', save S o f = Ok t' /\ exists f', load S t' = Ok f' /\ font_equiv S f f'.
Proof.
  intros S OK o t f _ Hv. destruct (save_load_roundtrip S OK o f Hv) as (t' & H1 & _ & H2). eauto.
Qed.

(** the reader only produces fonts the writer can represent: for a format-3 tree whose files
    decode to values of the parts' domains ([sig_closed]: one lemma per part — parse_glif yields
    valid glyphs, validate yields valid info, ...), with distinct layer directories and glif file
    names on disk, outside the class below *)
Theorem C04_load_yields_valid : forall (S : sig), sig_ok S -> sig_closed S ->
  forall (t : tree S) (f : font S) mc m,
  load S t = Ok f -> t_meta S t = Some mc -> dec (P_meta S) mc = Some m -> m_version m = 3 ->
  disk_wf S t -> ~ orphan_object_libs S t ->
  font_valid S f.
Proof. exact load_yields_valid. Qed.

(** full statement and its refutation: a tree with [public.objectLibs] in lib.plist and no
    fontinfo.plist loads (the key stays in the font's lib) and can then not be saved *)
Definition C04_full : Prop := forall (S : sig), sig_ok S -> forall o (t : tree S) (f : font S),
  load S t = Ok f -> exists t', save S o f = Ok t'.
Theorem C04_refuted_orphan_object_libs : ~ C04_full.
Proof. exact orphan_object_libs_refutes. Qed.
Theorem C04_orphan_object_libs_witness :
  orphan_object_libs toy_sig toy_orphan_tree /\
  exists f, load toy_sig toy_orphan_tree = Ok f /\ forall o, save toy_sig o f = Err SPreexistingObjectLibs.
Proof. exact orphan_witness. Qed.

(** numbers: a value within 2^-52 of a non-zero integer is written as that integer — inside the
    tolerance of C01 but not "the same value": 1 + 2^-52 comes back as 1 *)
Theorem C04_refuted_near_integer_rounded :
  exists (v : Q) (t : Z), written_as_integer v t /\ within v (inject_Z t) /\ KnownClass_near_integer_rounded v t.
Proof. eexists. eexists. exact near_integer_witness. Qed.

(** Non-vacuity *)
Example C04_laws_satisfiable : sig_ok toy_sig /\ sig_closed toy_sig.
Proof. split; [exact toy_ok|exact toy_closed]. Qed.
Example C04_fixed_point_example :
  exists t f, save toy_sig 0 toy_font = Ok t /\ load toy_sig t = Ok f /\ font_valid toy_sig f /\
              disk_wf toy_sig t /\ ~ orphan_object_libs toy_sig t.
Proof. exact fixed_point_example. Qed.
