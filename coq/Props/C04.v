(** C04 — load, save, load again: foreign and legacy input is normalised without loss.
    Statements only; proofs live in Proofs/FontRTP.v and Proofs/FontToyP.v. *)
Require Import Norad.Model.GlifSpec Norad.Model.GlifEncode Norad.Proofs.GlifEncodeP Norad.Proofs.GlifRoundtripP Norad.Proofs.GlifFullP.
Require Import Norad.Model.Base Norad.Model.FontRT Norad.Model.FontToy Norad.Model.FontNum Norad.Model.FontReal Norad.Model.FontRealPlist Norad.Model.FontRealFiles
               Norad.Proofs.FontRTP Norad.Proofs.FontToyP Norad.Proofs.FontNumP Norad.Proofs.FontRealP Norad.Proofs.FontRealFilesP Norad.Proofs.PlistReadP.
Open Scope N_scope.

(** whatever the format of the input (1, 2 or 3), a loaded font says format 3 *)
Theorem C04_legacy_becomes_v3 : forall (S : sig) (t : tree S) (f : font S),
  load S t = Ok f -> m_version (f_meta S f) = 3.
Proof. exact load_version_3. Qed.

(** what is written is always format 3, with norad's creator tag and the font's minor version.
    (That every glif says format 2 is a fact of the glif encoder, C02; the check observes it.) *)
Theorem C04_output_is_v3 : forall (S : sig), sig_ok S -> forall o (f : font S) (t : tree S),
  font_valid S f -> save S o f = Ok t ->
  exists mc m, t_meta S t = Some mc /\ dec (P_meta S) mc = Some m /\ m_version m = 3 /\
               m_creator m = Some NORAD_CREATOR /\ m_minor m = m_minor (f_meta S f).
Proof. exact output_is_v3. Qed.

(** the reader only produces fonts the writer can represent: for EVERY format-3 tree norad loads
    (norad's own part — no left-over public.objectLibs, unique default layer first, distinct layer
    names, directories and glif file names, object libs only on identified guidelines — is proved
    from the model of load; the per-part closedness [sig_closed], e.g. parse_glif yields valid
    glyphs, is the hypothesis to be discharged by the part owners) *)
Theorem C04_load_yields_valid : forall (S : sig), sig_ok S -> sig_closed S ->
  forall (t : tree S) (f : font S) mc m,
  load S t = Ok f -> t_meta S t = Some mc -> dec (P_meta S) mc = Some m -> m_version m = 3 ->
  font_valid S f.
Proof. exact load_yields_valid. Qed.

(** the fixed point, at full strength: whatever format-3 tree norad loads, the loaded font is
    saved (for every write option) and loaded again as an equal font *)
Theorem C04_fixed_point : forall (S : sig), sig_ok S -> sig_closed S ->
  forall o (t : tree S) (f : font S) mc m,
  load S t = Ok f -> t_meta S t = Some mc -> dec (P_meta S) mc = Some m -> m_version m = 3 ->
  exists t', save S o f = Ok t' /\ exists f', load S t' = Ok f' /\ font_equiv S f f'.
Proof. exact fixed_point_full. Qed.

(** regression examples of repaired behaviour: public.objectLibs without fontinfo.plist is dropped
    at load and the font is saved (1c81824); duplicate layer names / directories, a misplaced
    public.default and a glif file used twice — compared without case (f6784f0) — are rejected at load
    (83f6c18, afd801a) *)
Example C04_orphan_object_libs_removed :
  exists f t', load toy_sig toy_orphan_tree = Ok f /\ d_get toy_sig OBJ (f_lib toy_sig f) = None /\
               save toy_sig 0 f = Ok t'.
Proof. exact orphan_regression. Qed.
Example C04_duplicates_rejected :
  load toy_sig (toy_dup_tree [(DEFAULT_LAYER_NAME, GLYPHS); (s "x", GLYPHS)] []) = Err LDuplicateLayerDirectory /\
  load toy_sig (toy_dup_tree [(s "x", GLYPHS); (s "x", s "glyphs.x")] []) = Err LDuplicateLayerName /\
  load toy_sig (toy_dup_tree [(s "x", GLYPHS); (DEFAULT_LAYER_NAME, s "glyphs.x")] []) = Err LReservedLayerName /\
  load toy_sig (toy_dup_tree [(s "x", GLYPHS)] [(s "a", s "a.glif"); (s "b", s "a.glif")]) = Err LDuplicateGlyphFile /\
  (* compared without case (f6784f0) *)
  load toy_sig (toy_dup_tree [(s "x", GLYPHS); (s "y", s "glyphs.X"); (s "z", s "glyphs.x")] []) = Err LDuplicateLayerDirectory /\
  load toy_sig (toy_dup_tree [(s "x", GLYPHS)] [(s "a", s "a.glif"); (s "b", s "A.glif")]) = Err LDuplicateGlyphFile /\
  exists f, load toy_sig (toy_dup_tree [(s "y", s "glyphs.x"); (s "x", GLYPHS)] [(s "a", s "a.glif")]) = Ok f.
Proof. exact duplicates_rejected. Qed.

(** numbers: an integer is written only for an exactly integral value (cf70ca2), so 1 + 2^-52 is
    no longer moved to 1 *)
Example C04_near_integer_kept : ~ written_as_integer (4503599627370497 # 4503599627370496) 1.
Proof. exact near_one_not_integer. Qed.

(** Non-vacuity *)
Example C04_laws_satisfiable : sig_ok toy_sig /\ sig_closed toy_sig.
Proof. split; [exact toy_ok|exact toy_closed]. Qed.
Example C04_fixed_point_example :
  exists t f, save toy_sig 0 toy_font = Ok t /\ load toy_sig t = Ok f /\ font_valid toy_sig f.
Proof. exact fixed_point_example. Qed.

(** ---------- with the REAL part models plugged in (Model/FontReal.v) ----------
    The fixed point for EVERY format-3 tree the real reader loads, assuming of the loaded glyphs only
    what the real glif reader does not itself guarantee.

    Proved, not assumed: the loaded font info is in the codec's domain and valid
    (C13_load_only_valid, through [info_real_closed]), its guideline identifiers are distinct
    ([fi_validate] -> [fi_spec]), the groups passed [validate_groups] (load checks them), every
    loaded glyph obeys the glyph rules of C12 and has no public.objectLibs (C12_returned_glyph_rules)
    and is filed under a valid name, and all of norad's own structure (no left-over
    public.objectLibs, unique default layer first, distinct names / directories / glif files).

    Hypotheses that remain, and why:
    - [glyph_rt_domain] for every loaded glyph:
        finite numbers        — str::parse::<f64> accepts inf and NaN, the writer's round trip (C02)
                                is stated for finite numbers;
        [libs_valid]          — lib values outside what the plist writer / reader agree on (e.g.
                                duplicate keys) are not excluded by the glif reader;
        [libs_plain], note    — the known classes glyph_lib_linebreak / note_blanks (F3): such a
                                glyph loads and is changed by the next save;
        [glyph_canon]         — negative zeros, colours beyond 3 decimals and unsorted lib keys are
                                normalised by the first save (an exact fixed point needs the
                                normal form; C02's equivalence covers the general case);
    - [codecs_ok K], [codecs_closed K]: the seven plist-layer file codecs are lawful and their
      readers closed (L1 plist hypothesis + serde shapes; contents keys are [Name]s, guideline
      identifiers are writable keys) — satisfiable: [C04_real_codecs_satisfiable];
    - [L1_glif]: the four library facts of C02_roundtrip. *)
Theorem C04_fixed_point_real : forall pf ff ff3 fi fh (K : codecs),
  L1_glif pf ff ff3 fi fh -> codecs_ok K -> codecs_closed K ->
  forall o (t : tree (real_sig pf ff ff3 fi fh K)) (f : font (real_sig pf ff ff3 fi fh K)) mc m,
  load (real_sig pf ff ff3 fi fh K) t = Ok f ->
  t_meta _ t = Some mc -> dec (P_meta (real_sig pf ff ff3 fi fh K)) mc = Some m -> m_version m = 3 ->
  Forall (fun l => Forall (fun e : str * str * glyph => glyph_rt_domain pf ff3 (snd e)) (l_glyphs l)) (f_layers _ f) ->
  exists t', save (real_sig pf ff ff3 fi fh K) o f = Ok t' /\
             exists f', load (real_sig pf ff ff3 fi fh K) t' = Ok f' /\ font_equiv (real_sig pf ff ff3 fi fh K) f f'.
Proof. exact fixed_point_real. Qed.
Example C04_real_codecs_satisfiable : codecs_ok id_codecs /\ codecs_closed id_codecs.
Proof. split; [exact id_codecs_ok|exact id_codecs_closed]. Qed.
(** every glyph of a font loaded through the real glif reader is a parsed glyph — it obeys the
    glyph rules of C12 and holds no public.objectLibs — renamed to its key of contents.plist *)
Theorem C04_loaded_glyphs_obey_rules_real : forall pf ff ff3 fi fh (K : codecs)
  (t : tree (real_sig pf ff ff3 fi fh K)) (f : font (real_sig pf ff ff3 fi fh K)),
  load (real_sig pf ff ff3 fi fh K) t = Ok f ->
  Forall (fun l => Forall (fun e : str * str * glyph =>
            exists g, glyph_rules g /\ lookup objlibs_key (glib g) = None /\ snd e = set_gname (fst (fst e)) g)
            (l_glyphs l)) (f_layers _ f).
Proof. exact loaded_glyphs_rules_real. Qed.

(** the same with metainfo.plist, layercontents.plist and contents.plist read and written by the
    tree-level plist codec (Model/FontRealPlist.v; see Props/C01.v): closedness of these three
    readers is PROVED (a decoded metainfo has a minor version below 2^32, decoded layer and glyph
    names are [Name]s, decoded contents are in BTreeMap order), so [codecs_closed] shrinks to
    [codecs4_closed K4]: the lib / groups / kerning / layerinfo readers return writable values and
    guideline identifiers are writable keys.  Satisfiable: [C04_real_codecs4_satisfiable]. *)
Theorem C04_real_plist_files_closed : forall pf ff ff3 fi fh (K4 : codecs4),
  L1_glif pf ff ff3 fi fh -> codecs4_closed K4 -> codecs_closed (with_plist_files pf ff fi K4).
Proof. exact plist_files_closed. Qed.
Theorem C04_fixed_point_real_plist_files : forall pf ff ff3 fi fh (K4 : codecs4),
  L1_glif pf ff ff3 fi fh -> codecs4_ok K4 -> codecs4_closed K4 ->
  forall o (t : tree (real_sig pf ff ff3 fi fh (with_plist_files pf ff fi K4)))
         (f : font (real_sig pf ff ff3 fi fh (with_plist_files pf ff fi K4))) mc m,
  load (real_sig pf ff ff3 fi fh (with_plist_files pf ff fi K4)) t = Ok f ->
  t_meta _ t = Some mc ->
  dec (P_meta (real_sig pf ff ff3 fi fh (with_plist_files pf ff fi K4))) mc = Some m -> m_version m = 3 ->
  Forall (fun l => Forall (fun e : str * str * glyph => glyph_rt_domain pf ff3 (snd e)) (l_glyphs l)) (f_layers _ f) ->
  exists t', save (real_sig pf ff ff3 fi fh (with_plist_files pf ff fi K4)) o f = Ok t' /\
             exists f', load (real_sig pf ff ff3 fi fh (with_plist_files pf ff fi K4)) t' = Ok f' /\
                        font_equiv (real_sig pf ff ff3 fi fh (with_plist_files pf ff fi K4)) f f'.
Proof. exact fixed_point_real_plist. Qed.
Example C04_real_codecs4_satisfiable : codecs4_ok id_codecs4 /\ codecs4_closed id_codecs4.
Proof. split; [exact id_codecs4_ok|exact id_codecs4_closed]. Qed.

(** ---------- closedness asked of one tree ----------
    A real lib.plist / kerning.plist / layerinfo.plist reader is not closed: it also returns values
    its writer does not represent (a non-finite <real>, a colour beyond three decimals, a kerning
    value -0.0).  [sig_closed_at S t] asks closedness of these three readers for the files of the
    tree [t] only, and the fixed point holds for that tree. *)
Theorem C04_fixed_point_at_tree : forall (S : sig), sig_ok S -> forall t : tree S, sig_closed_at S t ->
  forall o (f : font S) mc m,
  load S t = Ok f -> t_meta S t = Some mc -> dec (P_meta S) mc = Some m -> m_version m = 3 ->
  Forall (fun l => Forall (glyph_entry_ok S) (l_glyphs l)) (f_layers S f) ->
  exists t', save S o f = Ok t' /\ exists f', load S t' = Ok f' /\ font_equiv S f f'.
Proof. exact fixed_point_at. Qed.

(** ---------- every file through the plist tree (Model/FontRealFiles.v; see Props/C01.v) ----------
    Proved, not assumed, on top of what C04_fixed_point_real lists: [codecs_ok] of the instance,
    and closedness of the metainfo, layercontents, contents and groups readers
    ([C04_all_files_closed_base]).

    Hypotheses that remain, and why:
    - [files_in_domain t]: what lib.plist, kerning.plist and the layerinfo.plist files of the INPUT
      tree are read as lies in their writers' domains —
        lib values            — the plist reader accepts <real>inf</real> / NaN (f64::from_str),
                                the writer's round trip (H_ff) is stated for finite numbers; the
                                other conditions of [wf_pv_real] (integer range, byte range, date
                                shape, no repeated key) hold of everything the reader returns, they
                                are not separated out here;
        layer colour          — a colour with more than three decimals is rounded by the next save
                                (as for glyph colours: the exact fixed point needs the normal form);
        kerning numbers       — non-finite values, and -0.0 which is written as the integer 0;
    - [glyph_rt_domain] for every loaded glyph (see C04_fixed_point_real);
    - [L1_glif], and f64::from_bits(v).to_bits() == v. *)
Theorem C04_all_files_closed_base : forall pf ff ff3 fi fh to_bits of_bits lw,
  L1_glif pf ff ff3 fi fh -> codecs_closed_base (all_files pf ff ff3 fi to_bits of_bits lw).
Proof. intros pf ff ff3 fi fh tb ob lw (A & B & _ & D). apply all_files_closed_base; assumption. Qed.
Theorem C04_fixed_point_real_all_files : forall pf ff ff3 fi fh to_bits of_bits lw,
  L1_glif pf ff ff3 fi fh -> (forall v, to_bits (of_bits v) = v) ->
  forall o (t : tree (real_sig pf ff ff3 fi fh (all_files pf ff ff3 fi to_bits of_bits lw)))
         (f : font (real_sig pf ff ff3 fi fh (all_files pf ff ff3 fi to_bits of_bits lw))) mc m,
  load (real_sig pf ff ff3 fi fh (all_files pf ff ff3 fi to_bits of_bits lw)) t = Ok f ->
  t_meta _ t = Some mc ->
  dec (P_meta (real_sig pf ff ff3 fi fh (all_files pf ff ff3 fi to_bits of_bits lw))) mc = Some m -> m_version m = 3 ->
  files_in_domain pf ff ff3 fi fh (all_files pf ff ff3 fi to_bits of_bits lw) t ->
  Forall (fun l => Forall (fun e : str * str * glyph => glyph_rt_domain pf ff3 (snd e)) (l_glyphs l)) (f_layers _ f) ->
  exists t', save (real_sig pf ff ff3 fi fh (all_files pf ff ff3 fi to_bits of_bits lw)) o f = Ok t' /\
             exists f', load (real_sig pf ff ff3 fi fh (all_files pf ff ff3 fi to_bits of_bits lw)) t' = Ok f' /\
                        font_equiv (real_sig pf ff ff3 fi fh (all_files pf ff ff3 fi to_bits of_bits lw)) f f'.
Proof. exact fixed_point_all_files. Qed.
(** the same for any [codecs]: closedness of lib / kerning / layerinfo asked of the input tree only *)
Theorem C04_fixed_point_real_at : forall pf ff ff3 fi fh (K : codecs),
  L1_glif pf ff ff3 fi fh -> codecs_ok K -> codecs_closed_base K ->
  forall o (t : tree (real_sig pf ff ff3 fi fh K)) (f : font (real_sig pf ff ff3 fi fh K)) mc m,
  load (real_sig pf ff ff3 fi fh K) t = Ok f ->
  t_meta _ t = Some mc -> dec (P_meta (real_sig pf ff ff3 fi fh K)) mc = Some m -> m_version m = 3 ->
  files_in_domain pf ff ff3 fi fh K t ->
  Forall (fun l => Forall (fun e : str * str * glyph => glyph_rt_domain pf ff3 (snd e)) (l_glyphs l)) (f_layers _ f) ->
  exists t', save (real_sig pf ff ff3 fi fh K) o f = Ok t' /\
             exists f', load (real_sig pf ff ff3 fi fh K) t' = Ok f' /\ font_equiv (real_sig pf ff ff3 fi fh K) f f'.
Proof. exact fixed_point_real_at. Qed.

(** ---------- the input condition reduced to its numbers ----------
    Everything the plist reader returns is a value the plist writer represents — integers within
    i64 / u64, bytes, well-shaped dates, no repeated key — except that a <real> may be non-finite
    ([C04_plist_reader_returns_writable]); groups / kerning maps come back in BTreeMap order with
    valid names; a layer colour read is within 0..1.  So [files_in_domain] follows from
    [input_numbers_ok t] (Model/FontRealFiles.v), which says only what the readers do not give:
      - the <real>s of lib.plist and of every layer lib are finite;
      - the numbers of kerning.plist are finite, canonical and not -0.0 (written as integer 0);
      - a layer colour is a fixed point of the three-decimal rendering.
    Remaining hypotheses of the fixed point: these, [glyph_rt_domain] for the loaded glyphs
    (C04_fixed_point_real says why), [L1_glif] and f64::from_bits(v).to_bits() == v. *)
Theorem C04_plist_reader_returns_writable : forall pf n v,
  pv_of pf n = Some v -> reals_finite v = true -> pv_good 0 v = true.
Proof. exact pv_of_good. Qed.
Theorem C04_fixed_point_real_all_files_numbers : forall pf ff ff3 fi fh to_bits of_bits lw,
  L1_glif pf ff ff3 fi fh -> (forall v, to_bits (of_bits v) = v) ->
  forall o (t : tree (real_sig pf ff ff3 fi fh (all_files pf ff ff3 fi to_bits of_bits lw)))
         (f : font (real_sig pf ff ff3 fi fh (all_files pf ff ff3 fi to_bits of_bits lw))) mc m,
  load (real_sig pf ff ff3 fi fh (all_files pf ff ff3 fi to_bits of_bits lw)) t = Ok f ->
  t_meta _ t = Some mc ->
  dec (P_meta (real_sig pf ff ff3 fi fh (all_files pf ff ff3 fi to_bits of_bits lw))) mc = Some m -> m_version m = 3 ->
  input_numbers_ok pf ff ff3 fi fh to_bits of_bits lw t ->
  Forall (fun l => Forall (fun e : str * str * glyph => glyph_rt_domain pf ff3 (snd e)) (l_glyphs l)) (f_layers _ f) ->
  exists t', save (real_sig pf ff ff3 fi fh (all_files pf ff ff3 fi to_bits of_bits lw)) o f = Ok t' /\
             exists f', load (real_sig pf ff ff3 fi fh (all_files pf ff ff3 fi to_bits of_bits lw)) t' = Ok f' /\
                        font_equiv (real_sig pf ff ff3 fi fh (all_files pf ff ff3 fi to_bits of_bits lw)) f f'.
Proof. exact fixed_point_all_files_numbers. Qed.
