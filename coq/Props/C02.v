(** C02 — encoding a glyph to glif XML and parsing it back is lossless.
    Statements only; proofs live in Proofs/GlifEncodeP.v (and Proofs/GlifCompleteP.v).

    [encode_glif ff ff3 fi fh o g] is the model of Glyph::encode_xml_impl at the level of the event
    tree a reader gets back (Model/GlifEncode.v); [parse_glif pf] the reader model of C12.
    Library behaviour enters as hypotheses (L1, validated on every value of every case by the
    run): [H_ff] — f64::from_str inverts f64::to_string on finite numbers; [H_ff3] — a colour
    channel printed with three decimals holds no comma and reads back within 0..1, [close3] to
    the original.

    What is proved: the codec of every object kind inverts (component by component, under the
    validity rules of C12's [glyph_rules]); the composite round trip for every valid glyph that
    carries no lib ([C02_roundtrip_partial]: name, advance, code points in order, note, image,
    every contour, point, component, anchor and guideline with names, identifiers, colours and
    transforms); the exact condition under which lib text and notes survive (finding F3);
    independence of the write options.
    What is NOT proved: the composite round trip for glyphs WITH a glyph lib or object libs — it
    needs the dictionary algebra of dump_object_libs / load_object_libs / sort_keys_rec and the
    read-back of the numeric, data and date leaves of the lib.  That part is compared with the
    implementation on every generated glyph by the correspondence run instead. *)
Require Import Norad.Model.GlifSpec Norad.Model.GlifDen Norad.Model.GlifEncode.
Require Import Norad.Proofs.GlifParseP Norad.Proofs.GlifEncodeP Norad.Proofs.GlifRoundtripP.
Open Scope N_scope.

(** ---------- lib text and notes: the exact extent of finding F3 ---------- *)
(** A lib string or key written through [write_lib_section] is read back re-indented ... *)
Theorem C02_lib_string_read_back : forall pf o s,
  leaf_value pf n_string (text_kids (reindent o s)) = Some (PStr (reindent o s)).
Proof. exact lib_string_roundtrip. Qed.
(** ... which is the original text exactly when it holds no line break or the indent width is 0. *)
Theorem C02_reindent_roundtrip_iff : forall o s,
  reindent o s = s <-> (~ In 10 s \/ o_count o = 0%nat).
Proof. exact reindent_id_iff. Qed.
Theorem C02_lib_string_roundtrip_iff : forall pf o s,
  leaf_value pf n_string (text_kids (reindent o s)) = Some (PStr s) <-> (~ In 10 s \/ o_count o = 0%nat).
Proof. exact lib_string_roundtrip_iff. Qed.
(** A note survives exactly when it is not blank and carries no blank at either end. *)
Theorem C02_note_roundtrip_iff : forall n,
  note_of None (text_kids n) = Some n <-> (blank n = false /\ trim n = n).
Proof. exact note_roundtrip_iff. Qed.

(** the full-strength statement for lib text, and its refutation (F3) *)
Definition C02_lib_text_full : Prop :=
  forall pf o s, leaf_value pf n_string (text_kids (reindent o s)) = Some (PStr s).
Theorem C02_refuted_F3_lib : ~ C02_lib_text_full.
Proof.
  intros H. specialize (H (fun _ => None) (mkOpts 9 1 false) [108; 49; 10; 108; 50]).
  apply lib_string_roundtrip_iff in H. destruct H as [H|H]; [apply H; cbn; tauto|discriminate].
Qed.
Definition C02_note_full : Prop := forall n, note_of None (text_kids n) = Some n.
Theorem C02_refuted_F3_note : ~ C02_note_full.
Proof. intros H. specialize (H [32; 120]). apply note_roundtrip_iff in H. destruct H as [_ H]. discriminate. Qed.

(** ---------- colours and code points ---------- *)
Theorem C02_color_roundtrip_3dp : forall pf ff3 close3,
  (forall x, unit_range x = true ->
     ~ In 44 (ff3 x) /\ exists y, pf (chan ff3 x) = Some y /\ unit_range y = true /\ close3 x y) ->
  forall c, color_val_ok c = true ->
  exists c', parse_color pf (color_str ff3 c) = Some c' /\ color_val_ok c' = true /\ color_close close3 c c'.
Proof. exact color_roundtrip_3dp. Qed.
Theorem C02_codepoints_order_preserved : forall l, NoDup l -> forall acc,
  (forall c, In c l -> ~ In c acc) -> fold_left (fun a c => cps_insert c a) l acc = acc ++ l.
Proof. exact codepoints_order_preserved. Qed.

(** ---------- the object codecs ---------- *)
Section Codecs.
  Variable pf : str -> option fl.
  Variable ff ff3 : fl -> str.
  Variable close3 : fl -> fl -> Prop.
  Hypothesis H_ff : forall x, fl_finite x = true -> pf (ff x) = Some x.
  Hypothesis H_ff3 : forall x, unit_range x = true ->
    ~ In 44 (ff3 x) /\ exists y, pf (chan ff3 x) = Some y /\ unit_range y = true /\ close3 x y.

  (** points and contours: a legal non-empty contour comes back point by point *)
  Theorem C02_contour_roundtrip : forall c seen,
    contour_rules c ->
    Forall (fun p => fl_finite (px p) = true /\ fl_finite (py p) = true) (cpoints c) ->
    NoDup (gcids c) -> (forall i, In i (gcids c) -> ~ In i seen) ->
    parse_contour pf 2 seen (attrs_of (enc_contour ff c)) (kids_of (enc_contour ff c))
    = Ok (Some (mkContour (map point_written (cpoints c)) (cid c) None), rev (gcids c) ++ seen).
  Proof. exact (contour_roundtrip pf ff H_ff). Qed.

  Theorem C02_component_roundtrip : forall c seen,
    comp_rules c -> transform_finite (ctrans c) -> (forall i, In i (oid (coid c)) -> ~ In i seen) ->
    parse_component pf 2 seen (attrs_of (enc_component ff c))
    = Ok (mkComp (cbase c) (transform_written (ctrans c)) (coid c) None, rev (oid (coid c)) ++ seen).
  Proof. exact (component_roundtrip pf ff H_ff). Qed.

  Theorem C02_anchor_roundtrip : forall a seen,
    anchor_rules a -> fl_finite (ax a) = true -> fl_finite (ay a) = true ->
    (forall i, In i (oid (aid a)) -> ~ In i seen) ->
    exists a', parse_anchor pf 2 seen (attrs_of (enc_anchor ff ff3 a)) = Ok (a', rev (oid (aid a)) ++ seen) /\
      ax a' = ax a /\ ay a' = ay a /\ aname a' = aname a /\ aid a' = aid a /\ alib a' = None /\
      ocolor_close close3 (acolor a) (acolor a').
  Proof. exact (anchor_roundtrip pf ff ff3 close3 H_ff H_ff3). Qed.

  Theorem C02_guideline_roundtrip : forall g seen,
    guide_rules g -> line_finite (gline g) -> (forall i, In i (oid (guid g)) -> ~ In i seen) ->
    exists g', parse_guideline pf 2 seen (attrs_of (enc_guideline ff ff3 g)) = Ok (g', rev (oid (guid g)) ++ seen) /\
      gline g' = gline g /\ guname g' = guname g /\ guid g' = guid g /\ gulib g' = None /\
      ocolor_close close3 (gcolor g) (gcolor g').
  Proof. exact (guideline_roundtrip pf ff ff3 close3 H_ff H_ff3). Qed.

  Theorem C02_image_roundtrip : forall i seen,
    image_rules i -> transform_finite (itrans i) ->
    exists i', parse_image pf 2 seen (attrs_of (enc_image ff ff3 i)) = Ok i' /\
      ifile i' = ifile i /\ itrans i' = transform_written (itrans i) /\
      ocolor_close close3 (icolor i) (icolor i').
  Proof. exact (image_roundtrip pf ff ff3 close3 H_ff H_ff3). Qed.
End Codecs.

(** ---------- the composite round trip, for glyphs without libs ---------- *)
(** Every glyph that obeys the glyph rules of C12, holds finite numbers, a note that is trimmed and
    not empty (outside F3), no contour without points (part of [contour_rules]; the writer skips
    such contours, see [C02_encode_drops_empty_contours])
    and no lib is encoded to a tree that the reader accepts, and the glyph read back agrees in
    every field: numbers exactly (a zero loses its sign), colours to three decimals, object libs
    absent.  PARTIAL: glyphs with a glyph lib or object libs are not covered (see the header). *)
Theorem C02_roundtrip_partial : forall pf ff ff3 fi fh o close3,
  (forall x, fl_finite x = true -> pf (ff x) = Some x) ->
  (forall x, unit_range x = true ->
     ~ In 44 (ff3 x) /\ exists y, pf (chan ff3 x) = Some y /\ unit_range y = true /\ close3 x y) ->
  (forall c, is_scalar c = true -> parse_hex (fh c) = Some c) ->
  forall g, glyph_rules g -> glyph_finite g -> lib_free g -> note_survives (gnote g) = true ->
  exists t g',
    encode_glif ff ff3 fi fh o g = Ok t /\ parse_glif pf (written_doc t) = Ok g' /\
    gname g' = gname g /\ gwidth g' = zero_norm (gwidth g) /\ gheight g' = zero_norm (gheight g) /\
    gcps g' = gcps g /\ gnote g' = gnote g /\ oimage_rel close3 (gimage g) (gimage g') /\
    Forall2 (guide_rel close3) (gguides g) (gguides g') /\ Forall2 (anchor_rel close3) (ganchors g) (ganchors g') /\
    gcomps g' = map comp_written (gcomps g) /\ gcontours g' = map contour_written (gcontours g) /\
    glib g' = [].
Proof. exact roundtrip_libfree. Qed.

(** non-vacuity: a glyph with code points, a note, an anchor, a component and a contour that meets
    every hypothesis of the theorem *)
Definition g_sample : glyph :=
  mkGlyph [97] (FFin false 125 2) f0 [65; 66] (Some [104; 105]) None []
    [mkAnchor f1 f0 (Some [116]) (Some (f1, f0, f0, f1)) (Some [97; 49]) None]
    [mkComp [98] t_identity (Some [107; 49]) None]
    [mkContour [mkPoint f0 f1 Line false (Some [97]) (Some [112]) None;
                mkPoint f1 f0 Off false None None None;
                mkPoint f1 f1 QCurve true None None None] (Some [99]) None]
    [].
Example C02_roundtrip_hypotheses_satisfiable :
  glyph_rules g_sample /\ glyph_finite g_sample /\ lib_free g_sample /\ note_survives (gnote g_sample) = true.
Proof.
  split; [|split; [|split; [|reflexivity]]].
  - unfold glyph_rules, g_sample; cbn [gname gcps gimage gguides ganchors gcomps gcontours].
    split; [reflexivity|]. split; [repeat constructor; cbn; intuition discriminate|].
    split; [repeat constructor|]. split; [exact I|]. split; [constructor|].
    split; [constructor; [|constructor]; unfold anchor_rules, lib_needs_id; cbn; repeat split; congruence|].
    split; [constructor; [|constructor]; unfold comp_rules, lib_needs_id; cbn; repeat split; congruence|].
    split.
    + constructor; [|constructor]. unfold contour_rules, lib_needs_id; cbn [cpoints cid clib].
      split; [discriminate|]. split; [apply Norad.Proofs.ContourP.legalb_spec; vm_compute; reflexivity|].
      split; [repeat constructor; cbn; congruence|]. split; [reflexivity|congruence].
    + apply Norad.Proofs.GlifSpecP.nodupb_spec. vm_compute. reflexivity.
  - unfold glyph_finite, g_sample, contour_finite, transform_finite; cbn. repeat split; repeat constructor.
  - unfold lib_free, g_sample; cbn. repeat split; repeat constructor.
Qed.

(** ---------- the write options ---------- *)
(** The options reach the tree only through the lib text: when the dictionary handed to the
    plist printer holds no line break, every option set yields the same tree. *)
Theorem C02_options_irrelevant : forall ff fi ff3 fh o1 o2 g,
  (forall lib, written_lib g = Ok lib -> pv_plain (PDict (sort_keys_rec lib)) = true) ->
  encode_glif ff ff3 fi fh o1 g = encode_glif ff ff3 fi fh o2 g.
Proof. exact encode_options_irrelevant. Qed.

(** ---------- witnesses (the glyphs hold no number that gets printed, so the library functions
    are never called; they are instantiated with constants) ---------- *)
Definition pfN : str -> option fl := fun _ => None.
Definition ffN : fl -> str := fun _ => [].
Definition fiN : Z -> str := fun _ => [].
Definition fhN : N -> str := fun _ => [].
Definition g_lib_multiline : glyph :=
  mkGlyph [97] f0 f0 [] None None [] [] [] [] [([107], PStr [108; 49; 10; 32; 32; 108; 50])].
(** "l1\n  l2" comes back as "l1\n\t\t  l2" with the default options, unchanged with width 0 *)
Definition reread (o : wopts) (g : glyph) : res glyph :=
  bind (encode_glif ffN ffN fiN fhN o g) (fun t => parse_glif pfN (written_doc t)).
Example C02_F3_lib_witness :
  match reread (mkOpts 9 1 false) g_lib_multiline, reread (mkOpts 9 0 false) g_lib_multiline with
  | Ok g1, Ok g0 =>
      glib g1 = [([107], PStr [108; 49; 10; 9; 9; 32; 32; 108; 50])] /\ glib g0 = glib g_lib_multiline
  | _, _ => False
  end /\
  c02_f3 (mkOpts 9 1 false) g_lib_multiline = true /\ c02_f3 (mkOpts 9 0 false) g_lib_multiline = false.
Proof. vm_compute. repeat split; reflexivity. Qed.
(** contours without points are not written (e956b60): the writer's output is that of the glyph
    without them, for ALL glyphs; the round-trip theorem applies to that glyph *)
Theorem C02_encode_drops_empty_contours : forall ff ff3 fi fh o g,
  encode_glif ff ff3 fi fh o (drop_empty g) = encode_glif ff ff3 fi fh o g.
Proof. exact encode_drop_empty. Qed.
Example C02_empty_contour_regression :
  let g := mkGlyph [97] f0 f0 [] None None [] [] [] [mkContour [] None None] [] in
  match reread (mkOpts 9 1 false) g with Ok g' => g' = drop_empty g | _ => False end.
Proof. vm_compute. reflexivity. Qed.
(** non-vacuity of the codec theorems: a contour that satisfies their hypotheses *)
Example C02_contour_hypotheses_satisfiable :
  let c := mkContour [mkPoint f0 f1 Line false (Some [97]) (Some [112]) None;
                      mkPoint f1 f0 Off false None None None;
                      mkPoint f1 f1 QCurve true None None None] (Some [99]) None in
  contour_rules c /\ NoDup (gcids c) /\
  Forall (fun p => fl_finite (px p) = true /\ fl_finite (py p) = true) (cpoints c).
Proof.
  cbn zeta. split; [|split].
  - unfold contour_rules, lib_needs_id; cbn [cpoints cid clib]. split; [discriminate|].
    split; [apply Norad.Proofs.ContourP.legalb_spec; vm_compute; reflexivity|].
    split; [repeat constructor; cbn; congruence|]. split; [reflexivity|congruence].
  - apply Norad.Proofs.GlifSpecP.nodupb_spec. vm_compute. reflexivity.
  - repeat constructor.
Qed.
