(** C02 — glif encode then parse is lossless. Statements only (under construction). *)
Require Import Norad.Model.GlifEncode.
Example C02_placeholder : fl_is_normal f1 = true.
Proof. reflexivity. Qed.
