(** C02 — encoding a glyph to glif XML and parsing it back is lossless.
    Statements only; proofs live in Proofs/GlifEncodeP.v, GlifRoundtripP.v, GlifLibsP.v, GlifFullP.v.

    [encode_glif ff ff3 fi fh o g] is the model of Glyph::encode_xml_impl at the level of the event
    tree a reader gets back (Model/GlifEncode.v); [parse_glif pf] the reader model of C12.
    Library behaviour enters as hypotheses (L1, validated on every value of every case by the
    run): [H_ff] — f64::from_str inverts f64::to_string on finite numbers; [H_ff3] — a colour
    channel printed with three decimals holds no comma and reads back within 0..1, [close3] to
    the original.

    What is proved: the codec of every object kind inverts (component by component, under the
    validity rules of C12's [glyph_rules]); the object libs moved into the lib by the writer come
    back onto their objects in the reader ([C02_object_libs_roundtrip]); the composite round trip
    for every valid glyph outside F3, with or without a glyph lib and object libs
    ([C02_roundtrip]: name, advance, code points in order, note, image, every contour, point,
    component, anchor and guideline with names, identifiers, colours, transforms and libs, the
    glyph lib; dictionaries come back with their keys sorted at every level, which is what the
    writer does); the exact condition under which lib text and notes survive (finding F3);
    independence of the write options; independence of a write from the writes before it
    ([C02_encode_history_independent], tied to the code by the history stream of the run) and the
    one way [encode_xml] fails ([C02_encode_fails_iff_uid_written]).
    Library behaviour beyond [H_ff]/[H_ff3] that [C02_roundtrip] takes as hypotheses (L1, validated
    on every value by the run): [H_fh] — hexadecimal code points; [H_fi] — plist integers between
    -2^63 and 2^64-1 are read back from their decimal text.  Base64 data needs no hypothesis (the
    model's decoder inverts its encoder, [C02_data_read_back]).  Dates are kept as their text (20 characters, shape checked
    by [date_shape]); the XML text layer (escaping, UTF-8) is the tree-level boundary of C02 and is
    covered by the correspondence run, not by a theorem. *)
Require Import Norad.Model.GlifSpec Norad.Model.GlifDen Norad.Model.GlifEncode.
Require Import Norad.Proofs.GlifParseP Norad.Proofs.GlifEncodeP Norad.Proofs.GlifRoundtripP
        Norad.Proofs.Base64P Norad.Proofs.GlifLibsP Norad.Proofs.GlifFullP.
Open Scope N_scope.

(** ---------- lib text and notes: the exact extent of finding F3 ---------- *)
(** A lib string or key written through [write_lib_section] is read back re-indented ... *)
Theorem C02_lib_string_read_back : forall pf o s,
  leaf_value pf n_string (text_kids (reindent o s)) = Some (PStr (reindent o s)).
Proof. exact lib_string_roundtrip. Qed.
(** ... which is the original text exactly when it holds no line break or the indent width is 0. *)
Theorem C02_reindent_roundtrip_iff : forall o s,
  reindent o s = s <-> (~ In 10 s \/ o_count o = 0%nat).
Proof. exact reindent_id_iff. Qed.
Theorem C02_lib_string_roundtrip_iff : forall pf o s,
  leaf_value pf n_string (text_kids (reindent o s)) = Some (PStr s) <-> (~ In 10 s \/ o_count o = 0%nat).
Proof. exact lib_string_roundtrip_iff. Qed.
(** A note survives exactly when it is not blank and carries no blank at either end. *)
Theorem C02_note_roundtrip_iff : forall n,
  note_of None (text_kids n) = Some n <-> (blank n = false /\ trim n = n).
Proof. exact note_roundtrip_iff. Qed.

(** the full-strength statement for lib text, and its refutation (F3) *)
Definition C02_lib_text_full : Prop :=
  forall pf o s, leaf_value pf n_string (text_kids (reindent o s)) = Some (PStr s).
Theorem C02_refuted_F3_lib : ~ C02_lib_text_full.
Proof.
  intros H. specialize (H (fun _ => None) (mkOpts 9 1 false) [108; 49; 10; 108; 50]).
  apply lib_string_roundtrip_iff in H. destruct H as [H|H]; [apply H; cbn; tauto|discriminate].
Qed.
Definition C02_note_full : Prop := forall n, note_of None (text_kids n) = Some n.
Theorem C02_refuted_F3_note : ~ C02_note_full.
Proof. intros H. specialize (H [32; 120]). apply note_roundtrip_iff in H. destruct H as [_ H]. discriminate. Qed.

(** ---------- colours and code points ---------- *)
Theorem C02_color_roundtrip_3dp : forall pf ff3 close3,
  (forall x, unit_range x = true ->
     ~ In 44 (ff3 x) /\ exists y, pf (chan ff3 x) = Some y /\ unit_range y = true /\ close3 x y) ->
  forall c, color_val_ok c = true ->
  exists c', parse_color pf (color_str ff3 c) = Some c' /\ color_val_ok c' = true /\ color_close close3 c c'.
Proof. exact color_roundtrip_3dp. Qed.
Theorem C02_codepoints_order_preserved : forall l, NoDup l -> forall acc,
  (forall c, In c l -> ~ In c acc) -> fold_left (fun a c => cps_insert c a) l acc = acc ++ l.
Proof. exact codepoints_order_preserved. Qed.

(** ---------- the object codecs ---------- *)
Section Codecs.
  Variable pf : str -> option fl.
  Variable ff ff3 : fl -> str.
  Variable close3 : fl -> fl -> Prop.
  Hypothesis H_ff : forall x, fl_finite x = true -> pf (ff x) = Some x.
  Hypothesis H_ff3 : forall x, unit_range x = true ->
    ~ In 44 (ff3 x) /\ exists y, pf (chan ff3 x) = Some y /\ unit_range y = true /\ close3 x y.

  (** points and contours: a legal non-empty contour comes back point by point *)
  Theorem C02_contour_roundtrip : forall c seen,
    contour_rules c ->
    Forall (fun p => fl_finite (px p) = true /\ fl_finite (py p) = true) (cpoints c) ->
    NoDup (gcids c) -> (forall i, In i (gcids c) -> ~ In i seen) ->
    parse_contour pf 2 seen (attrs_of (enc_contour ff c)) (kids_of (enc_contour ff c))
    = Ok (Some (mkContour (map point_written (cpoints c)) (cid c) None), rev (gcids c) ++ seen).
  Proof. exact (contour_roundtrip pf ff H_ff). Qed.

  Theorem C02_component_roundtrip : forall c seen,
    comp_rules c -> transform_finite (ctrans c) -> (forall i, In i (oid (coid c)) -> ~ In i seen) ->
    parse_component pf 2 seen (attrs_of (enc_component ff c))
    = Ok (mkComp (cbase c) (transform_written (ctrans c)) (coid c) None, rev (oid (coid c)) ++ seen).
  Proof. exact (component_roundtrip pf ff H_ff). Qed.

  Theorem C02_anchor_roundtrip : forall a seen,
    anchor_rules a -> fl_finite (ax a) = true -> fl_finite (ay a) = true ->
    (forall i, In i (oid (aid a)) -> ~ In i seen) ->
    exists a', parse_anchor pf 2 seen (attrs_of (enc_anchor ff ff3 a)) = Ok (a', rev (oid (aid a)) ++ seen) /\
      ax a' = ax a /\ ay a' = ay a /\ aname a' = aname a /\ aid a' = aid a /\ alib a' = None /\
      ocolor_close close3 (acolor a) (acolor a').
  Proof. exact (anchor_roundtrip pf ff ff3 close3 H_ff H_ff3). Qed.

  Theorem C02_guideline_roundtrip : forall g seen,
    guide_rules g -> line_finite (gline g) -> (forall i, In i (oid (guid g)) -> ~ In i seen) ->
    exists g', parse_guideline pf 2 seen (attrs_of (enc_guideline ff ff3 g)) = Ok (g', rev (oid (guid g)) ++ seen) /\
      gline g' = gline g /\ guname g' = guname g /\ guid g' = guid g /\ gulib g' = None /\
      ocolor_close close3 (gcolor g) (gcolor g').
  Proof. exact (guideline_roundtrip pf ff ff3 close3 H_ff H_ff3). Qed.

  Theorem C02_image_roundtrip : forall i seen,
    image_rules i -> transform_finite (itrans i) ->
    exists i', parse_image pf 2 seen (attrs_of (enc_image ff ff3 i)) = Ok i' /\
      ifile i' = ifile i /\ itrans i' = transform_written (itrans i) /\
      ocolor_close close3 (icolor i) (icolor i').
  Proof. exact (image_roundtrip pf ff ff3 close3 H_ff H_ff3). Qed.
End Codecs.

(** ---------- the composite round trip, for glyphs without libs ---------- *)
(** Every glyph that obeys the glyph rules of C12, holds finite numbers, a note that is trimmed and
    not empty (outside F3), no contour without points (part of [contour_rules]; the writer skips
    such contours, see [C02_encode_drops_empty_contours])
    and no lib is encoded to a tree that the reader accepts, and the glyph read back agrees in
    every field: numbers exactly (a zero loses its sign), colours to three decimals, object libs
    absent.  (The special case of [C02_roundtrip] below with the lib conditions replaced by
    [lib_free]; kept because its conclusion says outright that no lib appears.) *)
Theorem C02_roundtrip_libfree : forall pf ff ff3 fi fh o close3,
  (forall x, fl_finite x = true -> pf (ff x) = Some x) ->
  (forall x, unit_range x = true ->
     ~ In 44 (ff3 x) /\ exists y, pf (chan ff3 x) = Some y /\ unit_range y = true /\ close3 x y) ->
  (forall c, is_scalar c = true -> parse_hex (fh c) = Some c) ->
  forall g, glyph_rules g -> glyph_finite g -> lib_free g -> note_survives (gnote g) = true ->
  exists t g',
    encode_glif ff ff3 fi fh o g = Ok t /\ parse_glif pf (written_doc t) = Ok g' /\
    gname g' = gname g /\ gwidth g' = zero_norm (gwidth g) /\ gheight g' = zero_norm (gheight g) /\
    gcps g' = gcps g /\ gnote g' = gnote g /\ oimage_rel close3 (gimage g) (gimage g') /\
    Forall2 (guide_rel close3) (gguides g) (gguides g') /\ Forall2 (anchor_rel close3) (ganchors g) (ganchors g') /\
    gcomps g' = map comp_written (gcomps g) /\ gcontours g' = map contour_written (gcontours g) /\
    glib g' = [].
Proof. exact roundtrip_libfree. Qed.

(** non-vacuity: a glyph with code points, a note, an anchor, a component and a contour that meets
    every hypothesis of the theorem *)
Definition g_sample : glyph :=
  mkGlyph [97] (FFin false 125 2) f0 [65; 66] (Some [104; 105]) None []
    [mkAnchor f1 f0 (Some [116]) (Some (f1, f0, f0, f1)) (Some [97; 49]) None]
    [mkComp [98] t_identity (Some [107; 49]) None]
    [mkContour [mkPoint f0 f1 Line false (Some [97]) (Some [112]) None;
                mkPoint f1 f0 Off false None None None;
                mkPoint f1 f1 QCurve true None None None] (Some [99]) None]
    [].
Example C02_roundtrip_hypotheses_satisfiable :
  glyph_rules g_sample /\ glyph_finite g_sample /\ lib_free g_sample /\ note_survives (gnote g_sample) = true.
Proof.
  split; [|split; [|split; [|reflexivity]]].
  - unfold glyph_rules, g_sample; cbn [gname gcps gimage gguides ganchors gcomps gcontours].
    split; [reflexivity|]. split; [repeat constructor; cbn; intuition discriminate|].
    split; [repeat constructor|]. split; [exact I|]. split; [constructor|].
    split; [constructor; [|constructor]; unfold anchor_rules, lib_needs_id; cbn; repeat split; congruence|].
    split; [constructor; [|constructor]; unfold comp_rules, lib_needs_id; cbn; repeat split; congruence|].
    split.
    + constructor; [|constructor]. unfold contour_rules, lib_needs_id; cbn [cpoints cid clib].
      split; [discriminate|]. split; [apply Norad.Proofs.ContourP.legalb_spec; vm_compute; reflexivity|].
      split; [repeat constructor; cbn; congruence|]. split; [reflexivity|congruence].
    + apply Norad.Proofs.GlifSpecP.nodupb_spec. vm_compute. reflexivity.
  - unfold glyph_finite, g_sample, contour_finite, transform_finite; cbn. repeat split; repeat constructor.
  - unfold lib_free, g_sample; cbn. repeat split; repeat constructor.
Qed.

(** ---------- object libs: out of the objects when writing, back onto them when reading ---------- *)
(** [relib g]: the writer's [dump_object_libs] puts the lib of every anchor, guideline, contour,
    point and component (contours without points skipped) under [public.objectLibs] of the glyph
    lib, keyed by the object's identifier; the reader's [load_object_libs] takes them from there
    onto the objects with these identifiers (anchors, guidelines, contours with their points,
    components) and removes the key.  On a glyph whose lib-carrying objects have identifiers,
    whose identifiers are unique and whose lib has no [public.objectLibs] of its own this is the
    identity (no XML in between; with the XML: [C02_roundtrip]). *)
Theorem C02_object_libs_roundtrip : forall g,
  libs_have_ids g -> Forall (fun c => has_points c = true) (gcontours g) -> NoDup (glyph_ids g) ->
  lookup objlibs_key (glib g) = None ->
  relib g = Ok g.
Proof. exact object_libs_roundtrip. Qed.
Theorem C02_data_read_back : forall b, bytes_ok b = true ->
  let t := filter (fun c => negb (is_ascii_ws c)) (b64_encode b) in
  b64_decode (S (List.length t)) t = Some b.
Proof. exact b64_read_back. Qed.
(** a lib value written by the property-list writer is read back as it is (no line break in its
    text, or indent width 0; integers, reals, data, dates within the reader's range) *)
Theorem C02_lib_value_read_back : forall pf ff fi o,
  (forall x, fl_finite x = true -> pf (ff x) = Some x) ->
  (forall z, int_ok z = true -> plist_int (fi z) = Some z) ->
  forall v, pv_good (o_count o) v = true -> pv_of pf (pv_node ff fi o v) = Some v.
Proof. exact pv_read_back. Qed.

(** ---------- the composite round trip, libs included ---------- *)
(** Every glyph that obeys the glyph rules of C12, holds finite numbers and lib values the
    property-list writer and reader agree on ([libs_valid]: no duplicate keys, integers and bytes in
    range, finite reals, well-shaped dates, no [public.objectLibs] of its own) and is outside F3
    ([c02_f3 o g = false]: the note survives; lib text without line breaks, or indent width 0) is
    encoded to a tree that the reader accepts, and the glyph read back agrees in every field:
    numbers exactly (a zero advance loses its sign), colours to three decimals, every object lib
    and the glyph lib with the keys of every dictionary sorted ([sort_keys_rec], as the writer
    does), nothing else changed. *)
Theorem C02_roundtrip : forall pf ff ff3 fi fh o close3,
  (forall x, fl_finite x = true -> pf (ff x) = Some x) ->
  (forall x, unit_range x = true ->
     ~ In 44 (ff3 x) /\ exists y, pf (chan ff3 x) = Some y /\ unit_range y = true /\ close3 x y) ->
  (forall c, is_scalar c = true -> parse_hex (fh c) = Some c) ->
  (forall z, int_ok z = true -> plist_int (fi z) = Some z) ->
  forall g, glyph_rules g -> glyph_finite g -> libs_valid g = true -> c02_f3 o g = false ->
  exists t g',
    encode_glif ff ff3 fi fh o g = Ok t /\ parse_glif pf (written_doc t) = Ok g' /\
    gname g' = gname g /\ gwidth g' = zero_norm (gwidth g) /\ gheight g' = zero_norm (gheight g) /\
    gcps g' = gcps g /\ gnote g' = gnote g /\ oimage_rel close3 (gimage g) (gimage g') /\
    Forall2 (guide_rt close3) (gguides g) (gguides g') /\
    Forall2 (anchor_rt close3) (ganchors g) (ganchors g') /\
    gcomps g' = map comp_rt (gcomps g) /\ gcontours g' = map contour_rt (gcontours g) /\
    glib g' = sort_keys_rec (glib g).
Proof. exact roundtrip_full. Qed.

(** non-vacuity: a glyph with a glyph lib of every value kind (keys out of order, nested), and a lib
    on an anchor, a guideline, a component, a contour and a point, that meets every hypothesis *)
Definition d_sample : dict :=
  [([122], PStr [115]);
   ([97], PDict [([98], PInt 3); ([97], PBool true); ([99], PReal (FFin true 5 1))]);
   ([109], PArr [PStr [120]; PInt (-1); PData [0; 17; 255];
                 PDate [50;48;50;48;45;48;49;45;48;50;84;48;51;58;48;52;58;48;53;90]])].
Definition g_sample_libs : glyph :=
  mkGlyph [97] (FFin false 125 2) f0 [65; 66] (Some [104; 105]) None
    [mkGuide (LAngle f0 f1 f0) None None (Some [103; 49]) (Some [([107], PStr [118])])]
    [mkAnchor f1 f0 (Some [116]) (Some (f1, f0, f0, f1)) (Some [97; 49]) (Some d_sample)]
    [mkComp [98] t_identity (Some [107; 49]) (Some [([98], PBool false); ([97], PInt 7)])]
    [mkContour [mkPoint f0 f1 Line false (Some [97]) (Some [112]) (Some [([112], PStr [113])]);
                mkPoint f1 f0 Off false None None None;
                mkPoint f1 f1 QCurve true None None None] (Some [99]) (Some [([99], PArr [])])]
    d_sample.
Example C02_roundtrip_hypotheses_satisfiable_libs :
  glyph_rules g_sample_libs /\ glyph_finite g_sample_libs /\ libs_valid g_sample_libs = true /\
  c02_f3 (mkOpts 9 1 false) g_sample_libs = false /\
  sort_keys_rec (glib g_sample_libs) <> glib g_sample_libs.
Proof.
  split; [|split; [|split; [|split]]].
  - unfold glyph_rules, g_sample_libs; cbn [gname gcps gimage gguides ganchors gcomps gcontours].
    split; [reflexivity|]. split; [repeat constructor; cbn; intuition discriminate|].
    split; [repeat constructor|]. split; [exact I|].
    split; [constructor; [|constructor]; unfold guide_rules, line_rules, lib_needs_id; cbn; repeat split; congruence|].
    split; [constructor; [|constructor]; unfold anchor_rules, lib_needs_id; cbn; repeat split; congruence|].
    split; [constructor; [|constructor]; unfold comp_rules, lib_needs_id; cbn; repeat split; congruence|].
    split.
    + constructor; [|constructor]. unfold contour_rules, lib_needs_id; cbn [cpoints cid clib].
      split; [discriminate|]. split; [apply Norad.Proofs.ContourP.legalb_spec; vm_compute; reflexivity|].
      split; [repeat constructor; cbn; congruence|]. split; [reflexivity|congruence].
    + apply Norad.Proofs.GlifSpecP.nodupb_spec. vm_compute. reflexivity.
  - unfold glyph_finite, g_sample_libs, contour_finite, transform_finite, line_finite; cbn. repeat split; repeat constructor.
  - vm_compute. reflexivity.
  - vm_compute. reflexivity.
  - vm_compute. discriminate.
Qed.

(** ---------- the write options ---------- *)
(** The options reach the tree only through the lib text: when the dictionary handed to the
    plist printer holds no line break, every option set yields the same tree. *)
Theorem C02_options_irrelevant : forall ff fi ff3 fh o1 o2 g,
  (forall lib, written_lib g = Ok lib -> pv_plain (PDict (sort_keys_rec lib)) = true) ->
  encode_glif ff ff3 fi fh o1 g = encode_glif ff ff3 fi fh o2 g.
Proof. exact encode_options_irrelevant. Qed.

(** ---------- a history of writes ---------- *)
(** The writer is a function of the glyph (with its UID positions), the options and the operation
    alone: in any sequence of writes the i-th result is that of the i-th item, whatever was
    written (or failed to be written) before.  In the model this holds by construction
    ([encode_seq] is a map); it is tied to the implementation by the history stream of the run:
    sequences of writes on one thread, failing ones included, each result compared with the same
    write on a fresh thread and with [run_op]. *)
Theorem C02_encode_history_independent : forall ff ff3 fi fh l i x,
  nth_error l i = Some x ->
  nth_error (encode_seq ff ff3 fi fh l) i = Some (run_op ff ff3 fi fh x).
Proof. intros. unfold encode_seq. apply map_nth_error. assumption. Qed.
(** without UID values the writer of a history item is [encode_glif] *)
Theorem C02_encode_without_uid : forall ff ff3 fi fh o g,
  encode_w ff ff3 fi fh o (mkW g []) = encode_glif ff ff3 fi fh o g.
Proof. intros. unfold encode_w. cbn [w_glyph w_uids existsb]. destruct (written_lib g); reflexivity. Qed.
(** the one failure of [encode_xml]: a UID value that reaches the property-list writer (the object
    libs could be collected, i.e. every lib-carrying object has an identifier) *)
Theorem C02_encode_fails_iff_uid_written : forall ff ff3 fi fh o g us lib,
  written_lib g = Ok lib ->
  (existsb (upos_written g) us = true -> encode_w ff ff3 fi fh o (mkW g us) = Err EPlistWrite) /\
  (existsb (upos_written g) us = false -> exists t, encode_w ff ff3 fi fh o (mkW g us) = Ok t).
Proof.
  intros ff ff3 fi fh o g us lib H. unfold encode_w. cbn [w_glyph w_uids]. rewrite H. split; intros E; rewrite E.
  - reflexivity.
  - rewrite encode_tree. unfold enc_lib. rewrite H. cbn [bind]. destruct lib; cbn [bind]; eexists; reflexivity.
Qed.
(** a UID in the lib of a contour without points, or under a [public.objectLibs] key that the
    object libs replace, does not reach the writer; elsewhere it does *)
Example C02_uid_positions :
  let a := mkAnchor f0 f0 None None (Some [105]) (Some [([107], PBool false)]) in
  let g1 := mkGlyph [97] f0 f0 [] None None [] [] [] [mkContour [] (Some [99]) (Some [([107], PBool false)])] [] in
  let g2 := mkGlyph [97] f0 f0 [] None None [] [a] [] [] [(objlibs_key, PDict [([107], PBool false)])] in
  let g3 := mkGlyph [97] f0 f0 [] None None [] [] [] [] [(objlibs_key, PDict [([107], PBool false)])] in
  upos_written g1 (UContour 0) = false /\ upos_written g2 (UGlyph objlibs_key) = false /\
  upos_written g3 (UGlyph objlibs_key) = true /\ upos_written g2 (UAnchor 0) = true /\
  upos_written g2 (UGlyph [107]) = true.
Proof. vm_compute. repeat split; reflexivity. Qed.

(** ---------- witnesses (the glyphs hold no number that gets printed, so the library functions
    are never called; they are instantiated with constants) ---------- *)
Definition pfN : str -> option fl := fun _ => None.
Definition ffN : fl -> str := fun _ => [].
Definition fiN : Z -> str := fun _ => [].
Definition fhN : N -> str := fun _ => [].
Definition g_lib_multiline : glyph :=
  mkGlyph [97] f0 f0 [] None None [] [] [] [] [([107], PStr [108; 49; 10; 32; 32; 108; 50])].
(** "l1\n  l2" comes back as "l1\n\t\t  l2" with the default options, unchanged with width 0 *)
Definition reread (o : wopts) (g : glyph) : res glyph :=
  bind (encode_glif ffN ffN fiN fhN o g) (fun t => parse_glif pfN (written_doc t)).
Example C02_F3_lib_witness :
  match reread (mkOpts 9 1 false) g_lib_multiline, reread (mkOpts 9 0 false) g_lib_multiline with
  | Ok g1, Ok g0 =>
      glib g1 = [([107], PStr [108; 49; 10; 9; 9; 32; 32; 108; 50])] /\ glib g0 = glib g_lib_multiline
  | _, _ => False
  end /\
  c02_f3 (mkOpts 9 1 false) g_lib_multiline = true /\ c02_f3 (mkOpts 9 0 false) g_lib_multiline = false.
Proof. vm_compute. repeat split; reflexivity. Qed.
(** the keys of the lib come back sorted at every level (arrays are not reordered) *)
Example C02_lib_keys_sorted_example :
  let g := mkGlyph [97] f0 f0 [] None None [] [] [] []
             [([122], PStr [115]); ([97], PDict [([98], PBool true); ([97], PArr [PStr [122]; PStr [97]])])] in
  match reread (mkOpts 9 1 false) g with
  | Ok g' => glib g' = sort_keys_rec (glib g) /\
             glib g' = [([97], PDict [([97], PArr [PStr [122]; PStr [97]]); ([98], PBool true)]); ([122], PStr [115])]
  | _ => False
  end.
Proof. vm_compute. split; reflexivity. Qed.
(** contours without points are not written (e956b60): the writer's output is that of the glyph
    without them, for ALL glyphs; the round-trip theorem applies to that glyph *)
Theorem C02_encode_drops_empty_contours : forall ff ff3 fi fh o g,
  encode_glif ff ff3 fi fh o (drop_empty g) = encode_glif ff ff3 fi fh o g.
Proof. exact encode_drop_empty. Qed.
Example C02_empty_contour_regression :
  let g := mkGlyph [97] f0 f0 [] None None [] [] [] [mkContour [] None None] [] in
  match reread (mkOpts 9 1 false) g with Ok g' => g' = drop_empty g | _ => False end.
Proof. vm_compute. reflexivity. Qed.
(** non-vacuity of the codec theorems: a contour that satisfies their hypotheses *)
Example C02_contour_hypotheses_satisfiable :
  let c := mkContour [mkPoint f0 f1 Line false (Some [97]) (Some [112]) None;
                      mkPoint f1 f0 Off false None None None;
                      mkPoint f1 f1 QCurve true None None None] (Some [99]) None in
  contour_rules c /\ NoDup (gcids c) /\
  Forall (fun p => fl_finite (px p) = true /\ fl_finite (py p) = true) (cpoints c).
Proof.
  cbn zeta. split; [|split].
  - unfold contour_rules, lib_needs_id; cbn [cpoints cid clib]. split; [discriminate|].
    split; [apply Norad.Proofs.ContourP.legalb_spec; vm_compute; reflexivity|].
    split; [repeat constructor; cbn; congruence|]. split; [reflexivity|congruence].
  - apply Norad.Proofs.GlifSpecP.nodupb_spec. vm_compute. reflexivity.
  - repeat constructor.
Qed.
