(** C19, save half without a side condition — for every layer state REACHABLE through the API.
    Statements only; proofs in Proofs/SaveBridgeP.v (which imports C06/C07: Proofs/LayerP.v).

    [C19_par_save_eq_seq] (Props/C19.v) needs the paths of a layer's writes to be pairwise
    distinct.  For a layer as LOADED this follows from load's own check ([C19_save_full]).  Here
    the same for every container state that C06's operation histories reach — from a new font or
    from any successfully loaded one, after any sequence of insert / remove / rename / clear /
    retain / layer operations / save-and-reload that avoids the raw [Layer::entry] access (C06's
    known class) and did not panic: by [C06_reachable] the invariant holds, by C07 the assigned
    glif file names of a layer are pairwise distinct even ignoring case, hence every write list
    of the layer ([is_write_list]: one write per entry of [contents], to the entry's file, in any
    order, with any encoding result) has distinct paths, and the parallel save equals the
    sequential one for EVERY schedule, with one-step writes ([par_save]) and with
    truncate-then-write ([par_save2]).  For all [is_upper], [lower]. *)
Require Import Norad.Model.Base Norad.Model.Interleave Norad.Proofs.InterleaveP.
Require Import Norad.Model.FileName Norad.Model.Layer Norad.Proofs.FileNameP Norad.Proofs.LayerP.
Require Import Norad.Model.SaveBridge Norad.Proofs.SaveBridgeP.
From Coq Require Import String.
From stdpp Require Import gmap.

(** the abstraction is faithful to what it abstracts: a write list has exactly one task per entry
    of C06's [contents], writing to that entry's file *)
Theorem C19_write_list_entries : forall enc (l : layer) p out,
  In (p, out) (save_tasks_of enc l) <-> exists g, l_contents l !! g = Some p /\ out = enc g.
Proof.
  intros enc l p out. unfold save_tasks_of. rewrite in_map_iff. split.
  - intros [[g q] [E Hin]]. cbn in E. inversion E; subst. exists g. split; [|reflexivity].
    apply elem_of_list_In, elem_of_map_to_list in Hin. exact Hin.
  - intros [g [Hg ->]]. exists (g, p). split; [reflexivity|].
    apply elem_of_list_In, elem_of_map_to_list. exact Hg.
Qed.

(** any state with C06's invariant *)
Theorem C19_save_full_inv : forall lower (s : state) l enc ws sched tree,
  Inv lower s -> l ∈ layers s -> is_write_list enc l ws ->
  ok_tree (par_save sched tree ws) = ok_tree (seq_save tree ws) /\
  tree_equiv (ok_tree (par_save2 sched tree ws)) (ok_tree (seq_save tree ws)).
Proof. exact save_full_inv. Qed.

(** every state reachable by an operation history from a state with the invariant *)
Theorem C19_save_full_api : forall is_upper lower ops (s s' : state) l enc ws sched tree,
  Inv lower s -> clean is_upper lower s ops -> run is_upper lower s ops = Some s' ->
  l ∈ layers s' -> is_write_list enc l ws ->
  ok_tree (par_save sched tree ws) = ok_tree (seq_save tree ws) /\
  tree_equiv (ok_tree (par_save2 sched tree ws)) (ok_tree (seq_save tree ws)).
Proof.
  intros iu lo ops s s' l enc ws sched tree HI Hc Hr. apply (save_full_inv lo s').
  exact (reachable iu lo ops s s' HI Hc Hr).
Qed.
(** ... from a new font *)
Theorem C19_save_full_api_new_font : forall is_upper lower ops (s' : state) l enc ws sched tree,
  clean is_upper lower init ops -> run is_upper lower init ops = Some s' ->
  l ∈ layers s' -> is_write_list enc l ws ->
  ok_tree (par_save sched tree ws) = ok_tree (seq_save tree ws) /\
  tree_equiv (ok_tree (par_save2 sched tree ws)) (ok_tree (seq_save tree ws)).
Proof.
  intros iu lo ops s' l enc ws sched tree. apply (C19_save_full_api iu lo ops init). apply inv_init.
Qed.
(** ... from any font that loads *)
Theorem C19_save_full_api_loaded : forall is_upper lower d ops (s s' : state) l enc ws sched tree,
  load lower d = Some s -> clean is_upper lower s ops -> run is_upper lower s ops = Some s' ->
  l ∈ layers s' -> is_write_list enc l ws ->
  ok_tree (par_save sched tree ws) = ok_tree (seq_save tree ws) /\
  tree_equiv (ok_tree (par_save2 sched tree ws)) (ok_tree (seq_save tree ws)).
Proof.
  intros iu lo d ops s s' l enc ws sched tree Hl. apply (C19_save_full_api iu lo ops s).
  exact (inv_loaded lo d s Hl).
Qed.
(** the whole font: all layers one after the other, one schedule per layer *)
Theorem C19_save_font_full_api : forall is_upper lower ops (s s' : state) enc wss scheds tree,
  Inv lower s -> clean is_upper lower s ops -> run is_upper lower s ops = Some s' ->
  Forall2 (is_write_list enc) (layers s') wss ->
  ok_tree (par_save_font scheds tree wss) = ok_tree (seq_save_font tree wss).
Proof.
  intros iu lo ops s s' enc wss scheds tree HI Hc Hr. apply (save_font_full_inv lo s').
  exact (reachable iu lo ops s s' HI Hc Hr).
Qed.

(** non-vacuity: a new font, glyphs "A", "a_" (file names A_.glif, a_01.glif: distinct ignoring
    case) and "b" inserted, "b" renamed; the default layer's write list has three tasks; two
    schedules with different write orders leave the same tree *)
Example C19_save_full_api_nonvacuous :
  let ops := [InsertGlyph DEFAULT_LAYER_NAME nA; InsertGlyph DEFAULT_LAYER_NAME [97;95]%N;
              InsertGlyph DEFAULT_LAYER_NAME [98]%N; RenameGlyph DEFAULT_LAYER_NAME [98]%N [99]%N false] in
  let enc := fun g : str => inr g : N + list N in
  clean ascii_is_upper FileNameP.ascii_lower init ops /\
  exists s' l, run ascii_is_upper FileNameP.ascii_lower init ops = Some s' /\ layers s' = [l] /\
    length (save_tasks_of enc l) = 3%nat /\
    In (s2l "A_.glif"%string, inr nA) (save_tasks_of enc l) /\
    In (s2l "a_01.glif"%string, inr [97;95]%N) (save_tasks_of enc l) /\
    In (s2l "c.glif"%string, inr [99]%N) (save_tasks_of enc l) /\
    par_save [2;1;0]%nat [] (save_tasks_of enc l) = par_save [0;1;2]%nat [] (save_tasks_of enc l) /\
    par_save [2;1;0]%nat [] (save_tasks_of enc l) = seq_save [] (save_tasks_of enc l).
Proof.
  cbv zeta. split.
  - cbn [clean]. repeat split; try (intros []); exact I.
  - eexists. eexists. split; [vm_compute; reflexivity|]. split; [reflexivity|].
    repeat split; vm_compute; auto 10.
Qed.
