(** C19 — parallel loading and saving give exactly the sequential results.
    Statements only; proofs live in Proofs/InterleaveP.v, the model in Model/Interleave.v.

    Label: PARTIAL.  Proved, for ALL schedules of the model (arbitrary [list nat] of thread
    indices, complete or not, any number of tasks, any initial interner): the interning protocol
    (non-atomic check-then-insert) and the assembly of the results.  Not modelled, covered by the
    differential runs of the two harness builds only: rayon's scheduler / work stealing, OS
    threads, lock poisoning, memory ordering.  (A file write is modelled both as one step,
    [par_save], and as truncate-then-write, [par_save2].)
    "Equal" is equality of everything observable: name CONTENTS (allocation identity, i.e. which
    [Arc] a name shares, is erased: [erase_*]) and Ok-or-Err (which error is reported when several
    glifs are broken is outside the property). *)
Require Import Norad.Model.Base Norad.Model.Interleave Norad.Proofs.InterleaveP.
From Coq Require Import Permutation.
Open Scope N_scope.

Section Lower.
(** [str::to_lowercase] is not modelled: every statement holds for an arbitrary function. *)
Variable lower : str -> str.
Notation par_layer := (par_layer lower).
Notation seq_layer := (seq_layer lower).
Notation spec_layer := (spec_layer lower).
Notation layer_ok := (layer_ok lower).
Notation par_font := (par_font lower).
Notation seq_font := (seq_font lower).
Notation spec_font := (spec_font lower).
Notation font_ok := (font_ok lower).


(** Every [get] returns a name whose content is the requested one — at every moment of every
    schedule: the names handed to thread [i] so far have the contents of its first requests. *)
Theorem C19_intern_content : forall sched s progs i th p,
  nth_error (m_thr (steps sched (init s progs))) i = Some th -> nth_error progs i = Some p ->
  map content (rev (th_got th)) = firstn (length (th_got th)) (map content p).
Proof. exact intern_content. Qed.

(** ... and after the join every request has been answered (nothing lost, nothing mixed up). *)
Theorem C19_intern_all : forall sched s progs i p,
  nth_error progs i = Some p -> map content (got_of (run sched s progs) i) = map content p.
Proof. exact run_got_content. Qed.

(** The interner afterwards: no two elements with the same content, and its contents are the
    initial ones plus every requested name. *)
Theorem C19_set_is_union : forall sched s progs,
  let st := run sched s progs in
  (NoDup (map content s) -> NoDup (map content (m_set st))) /\
  (forall c, In c (map content (m_set st)) <-> In c (map content s) \/ In c (map content (concat progs))).
Proof. exact par_set_union. Qed.

(** Every task completes exactly once, whatever the schedule. *)
Theorem C19_every_task_completes_once : forall sched s progs,
  Permutation (m_done (run sched s progs)) (seq 0 (length progs)).
Proof. exact run_done_perm. Qed.

(** Folding results into an ordered map does not depend on the completion order. *)
Theorem C19_collect_order_independent : forall V (r r' : list (str * V)),
  Permutation r r' -> NoDup (map fst r) -> forall m, fold_ins r m = fold_ins r' m.
Proof. exact fold_ins_perm. Qed.

(** A parallel layer load succeeds iff the file-name check passes and every task succeeds (same
    for the sequential one). *)
Theorem C19_ok_iff_all_ok : forall sched s ts,
  ((exists m, snd (par_layer sched s ts) = inr m) <-> layer_ok ts = true) /\
  ((exists m, snd (seq_layer s ts) = inr m) <-> layer_ok ts = true).
Proof. intros. split; [apply (par_layer_ok_iff lower) | apply (seq_layer_ok_iff lower)]. Qed.

(** One layer: for every schedule the parallel load equals the specification (key ↦ the glyph its
    file determines, named by the key) and therefore the sequential load.  Covers failing loads
    too (both sides [None]).  [NoDup keys]: [contents] is a [BTreeMap]. *)
Theorem C19_par_layer_meets_spec : forall sched s ts,
  NoDup (keys_of ts) -> erase_res (snd (par_layer sched s ts)) = spec_layer ts.
Proof. exact (par_layer_spec lower). Qed.
Theorem C19_par_layer_eq_seq : forall sched s ts,
  NoDup (keys_of ts) -> erase_res (snd (par_layer sched s ts)) = erase_res (snd (seq_layer s ts)).
Proof. exact (par_layer_eq_seq lower). Qed.

(** The composite, whole font (layers one after the other, shared interner, one schedule per layer). *)
Theorem C19_par_eq_seq : forall scheds s ls,
  layers_ok ls -> erase_font (snd (par_font scheds s ls)) = erase_font (snd (seq_font s ls)).
Proof. exact (par_font_eq_seq lower). Qed.
(** No history: a load is a function of the UFO alone.  Every [Font::load] starts from
    [NameList::default()] (the model's [[]]), and the model has no other state that outlives a load;
    moreover even an ARBITRARY leftover interner content [s] (and other schedules) could not change
    what is loaded: loading font B after font A = loading font B.  (That the implementation keeps no
    state per thread / process / pool either is tied by the cross-load history stream of the check
    and by the inventory of [thread_local!] / [static] sites.) *)
Theorem C19_load_independent_of_history : forall scheds scheds' s ls,
  layers_ok ls ->
  erase_font (snd (par_font scheds s ls)) = erase_font (snd (par_font scheds' [] ls)) /\
  erase_font (snd (par_font scheds s ls)) = erase_font (snd (seq_font [] ls)).
Proof.
  intros scheds scheds' s ls H. rewrite !(par_font_spec lower) by assumption. rewrite (seq_font_spec lower). split; reflexivity.
Qed.
(** in the form of DESIGN.md: all tasks Ok -> both succeed with the same font *)
Theorem C19_par_eq_seq_ok : forall scheds s ls,
  layers_ok ls -> font_ok ls = true ->
  exists f, spec_font ls = Some f /\
            erase_font (snd (par_font scheds s ls)) = Some f /\ erase_font (snd (seq_font s ls)) = Some f.
Proof.
  intros scheds s ls H Hok. rewrite (par_font_spec lower), (seq_font_spec lower) by assumption.
  destruct (spec_font ls) as [f|] eqn:E; [eauto|]. exfalso.
  pose proof (seq_font_spec lower ls s) as HS. rewrite E in HS.
  clear E. revert s HS. induction ls as [|[ln ts] r IH]; intros s HS; [discriminate|].
  cbn [font_ok forallb snd] in Hok. apply andb_true_iff in Hok. destruct Hok as [Ht Hr].
  cbn [seq_font] in HS. pose proof (proj2 (seq_layer_ok_iff lower s ts) Ht) as [m Hm].
  destruct (seq_layer s ts) as [s1 res]. cbn [snd] in Hm. subst res.
  specialize (IH (fun l Hl => H l (or_intror Hl)) Hr s1).
  destruct (seq_font s1 r) as [s2 [e|ms]]; cbn [snd erase_font] in *; [auto|discriminate].
Qed.
(** the interner's contents after the whole font are the same in both builds *)
Theorem C19_set_par_eq_seq : forall scheds s ls, font_ok ls = true -> NoDup (map content s) ->
  NoDup (map content (fst (par_font scheds s ls))) /\
  forall c, In c (map content (fst (par_font scheds s ls))) <-> In c (map content (fst (seq_font s ls))).
Proof.
  intros scheds s ls Hok ND. destruct (par_font_set lower ls scheds s Hok) as [N1 H1].
  destruct (seq_font_set lower ls s Hok) as [_ H2]. split; [auto|]. intro c. rewrite H1, H2. tauto.
Qed.

(** Saving: writes to pairwise different paths commute, so every schedule leaves the tree of the
    specification (every file holds its own glyph's bytes) = the tree of the sequential build. *)
Theorem C19_par_save_meets_spec : forall sched tree ws,
  NoDup (map fst ws) -> ok_tree (par_save sched tree ws) = spec_save tree ws.
Proof. exact par_save_spec. Qed.
Theorem C19_par_save_eq_seq : forall sched tree ws,
  NoDup (map fst ws) -> ok_tree (par_save sched tree ws) = ok_tree (seq_save tree ws).
Proof. exact par_save_eq_seq. Qed.
Theorem C19_par_save_font_eq_seq : forall ls scheds tree,
  (forall ws, In ws ls -> NoDup (map fst ws)) ->
  ok_tree (par_save_font scheds tree ls) = ok_tree (seq_save_font tree ls).
Proof. exact par_save_font_eq_seq. Qed.
Theorem C19_save_ok_iff_all_ok : forall sched tree ws,
  (exists t, par_save sched tree ws = inr t) <-> forallb stask_ok ws = true.
Proof. exact par_save_ok_iff. Qed.

(** Saving with NON-atomic file writes (create/truncate, then write the bytes; other threads run
    in between and can see the truncated file): for every schedule the same files with the same
    bytes as the sequential build (trees compared through look-ups), and Ok/Err agree. *)
Theorem C19_par_save_nonatomic_eq_seq : forall sched tree (ws : list stask),
  NoDup (map fst ws) -> tree_equiv (ok_tree (par_save2 sched tree ws)) (ok_tree (seq_save tree ws)).
Proof. exact par_save2_equiv. Qed.
Example C19_nonatomic_truncated_visible :
  let ws : list stask := [ ([97], inr [1]); ([98], inr [2]) ] in
  w_tree (wsteps ws [0;1]%nat (mkW [([97],[9])] [WNot; WNot] false)) = [([97],[]); ([98],[])] /\
  par_save2 [0;1;1;0]%nat [([97],[9])] ws = inr [([97],[1]); ([98],[2])] /\
  par_save2 [1;0]%nat [] [ ([97], inr [1]); ([98], inl 5) ] = inl 0 /\ NoDup (map fst ws).
Proof. vm_compute. repeat split; repeat constructor; cbn; intuition discriminate. Qed.

(** * The full save statement (formerly refuted for the class dup-glif-paths, repaired in norad
    by afd801a: [load_impl] refuses a [contents] in which two names share a file; f6784f0: compared lower-cased).
    Where the distinctness of the paths comes from:
    - a LOADED layer: from load's own check, proved here ([C19_loaded_paths_distinct]);
    - a layer built or edited through the API: from C06's invariant and C07's distinctness
      theorem, for every reachable container state — proved in Props/C19api.v
      ([C19_save_full_api], [.._new_font], [.._loaded], [C19_save_font_full_api]).
    Without any source of distinctness the write order would show: see the last example. *)
Theorem C19_loaded_paths_distinct : forall sched s ts enc,
  (exists m, snd (par_layer sched s ts) = inr m) -> NoDup (map fst (save_tasks enc ts)).
Proof. exact (loaded_layer_paths_distinct lower). Qed.
Theorem C19_save_full : forall sched s ts enc sched' tree,
  (exists m, snd (par_layer sched s ts) = inr m) ->
  ok_tree (par_save sched' tree (save_tasks enc ts)) = ok_tree (seq_save tree (save_tasks enc ts)) /\
  tree_equiv (ok_tree (par_save2 sched' tree (save_tasks enc ts))) (ok_tree (seq_save tree (save_tasks enc ts))).
Proof.
  intros sched s ts enc sched' tree H. pose proof (loaded_layer_paths_distinct lower sched s ts enc H) as ND.
  split; [apply par_save_eq_seq | apply par_save2_equiv]; exact ND.
Qed.
End Lower.

Notation par_layer := (par_layer ascii_lower).
Notation seq_layer := (seq_layer ascii_lower).
Notation spec_layer := (spec_layer ascii_lower).
Notation layer_ok := (layer_ok ascii_lower).

(** * Which failure is reported when several tasks fail
    (a failure = an [Err] value or a panic; both are failure codes here).  A parallel
    [try_for_each] / [collect] reports the failure of SOME failing task, whichever the schedule
    lets finish first; when all failing tasks fail alike — in particular when only one fails —
    every schedule and the sequential build report the same.  So the two builds must agree on
    Ok-or-failure always, and on WHICH failure only when the failing tasks agree among themselves
    (known finding raw-entry-panic-vs-io-error: one task panics, another returns an error). *)
Theorem C19_save_failure_is_some_tasks : forall sched tree (ws : list stask) e,
  par_save sched tree ws = inl e -> exists p, In (p, inl e) ws.
Proof. exact par_save_err_in. Qed.
Theorem C19_save_failure_uniform : forall sched tree (ws : list stask) e0,
  (forall p e, In (p, inl e) ws -> e = e0) -> forallb stask_ok ws = false ->
  par_save sched tree ws = inl e0 /\ seq_save tree ws = inl e0.
Proof. exact par_save_failure_uniform. Qed.
Theorem C19_load_failure_is_some_tasks : forall sched s ts e,
  snd (par_glyphs sched s ts) = inl e -> exists t, In t ts /\ t_out t = TErr e.
Proof. exact par_glyphs_err_in. Qed.
(** two failing tasks that fail differently (99: the panic of a name without a glyph, 5: an I/O
    error), one that succeeds: the sequential build reports the first in name order, the parallel
    one either, depending on the schedule; with one kind of failure all agree *)
Example C19_mixed_failures_race :
  let ws : list stask := [ ([65], inl 99); ([98], inr [1]); ([113], inl 5) ] in
  seq_save [] ws = inl 99 /\ par_save [0;1;2]%nat [] ws = inl 99 /\ par_save [2;1;0]%nat [] ws = inl 5 /\
  let ws1 : list stask := [ ([65], inl 5); ([98], inr [1]); ([113], inl 5) ] in
  par_save [2;1;0]%nat [] ws1 = inl 5 /\ par_save [0]%nat [] ws1 = inl 5 /\ seq_save [] ws1 = inl 5.
Proof. vm_compute. repeat split. Qed.

(** * Non-vacuity *)
Definition nm (c : N) (id : N) : name := ([c], id).
(** THE racy interleaving: two threads ask for the same content "a" (97) with their own
    allocations 1 and 2; both look up and miss before either inserts.  The second insert is a no-op,
    thread 1 nevertheless returns its own allocation: the set holds ONE "a" (allocation 1), thread
    1 holds allocation 2 — sharing is lost, the content is right.  Under the sequential schedule
    thread 1 gets allocation 1. *)
Example C19_racy_both_miss :
  let racy := steps [0;1;0;1;0;1;0;1]%nat (init [] [[nm 97 1]; [nm 97 2]]) in
  let seqs := steps [0;0;0;0;1;1]%nat (init [] [[nm 97 1]; [nm 97 2]]) in
  m_set racy = [nm 97 1] /\ got_of racy 0 = [nm 97 1] /\ got_of racy 1 = [nm 97 2] /\ m_done racy = [0;1]%nat /\
  m_set seqs = [nm 97 1] /\ got_of seqs 0 = [nm 97 1] /\ got_of seqs 1 = [nm 97 1] /\ m_done seqs = [0;1]%nat.
Proof. vm_compute. repeat split. Qed.

(** three tasks of one layer (keys a, b, c; b and c are composites of a; c's glif carries a stale
    inner name "x"), three schedules (sequential; reversed; [rc]: thread 1 runs up to its lookup of
    "a" and misses, thread 0 looks up "a" and misses too, thread 1 inserts its allocation 5, thread 0's
    insert is a no-op and it keeps its own allocation 1): different completion orders, different
    allocations ([a]'s glyph is named by allocation 1 while the interner and the composites hold
    allocation 5), one observable result. *)
Definition ex_tasks : list task :=
  [ mkTask (nm 97 1) (Some [1]) [nm 97 2] (TOk 10);
    mkTask (nm 98 3) (Some [2]) [nm 98 4; nm 97 5; nm 97 6] (TOk 20);
    mkTask (nm 99 7) (Some [3]) [nm 120 8; nm 97 9; nm 98 10] (TOk 30) ].
Example C19_three_threads :
  let rc := [1;1;1;1;1;0;1;1;1;1;0;0;0;0]%nat in
  let rv := [2;2;2;2;2;2;2;2;2;2;2;2;2;1;1;1;1;1;1;1;1;1;1;1;1;1;0;0;0;0;0;0;0]%nat in
  let expect := Some [ ([97], ([97], [], 10)); ([98], ([98], [[97];[97]], 20)); ([99], ([99], [[97];[98]], 30)) ] in
  NoDup (keys_of ex_tasks) /\
  erase_res (snd (par_layer rc [] ex_tasks)) = expect /\
  erase_res (snd (par_layer rv [] ex_tasks)) = expect /\
  erase_res (snd (seq_layer [] ex_tasks)) = expect /\
  m_done (run rc [] (map prog_of ex_tasks)) = [1;0;2]%nat /\
  m_done (run rv [] (map prog_of ex_tasks)) = [2;1;0]%nat /\
  snd (par_layer rc [] ex_tasks) <> snd (seq_layer [] ex_tasks) /\
  fst (par_layer rc [] ex_tasks) = [nm 98 3; nm 97 5; nm 99 7; nm 120 8] /\
  fst (seq_layer [] ex_tasks) = [nm 97 1; nm 98 3; nm 99 7; nm 120 8].
Proof.
  vm_compute. repeat split; try (repeat constructor; cbn; intuition discriminate).
Qed.

(** a failing glif: Ok/Err agree, the reported error may differ *)
Example C19_errors_may_differ :
  let ts := [ mkTask (nm 97 1) (Some [1]) [] (TErr 1); mkTask (nm 98 2) (Some [2]) [] (TErr 2) ] in
  snd (par_layer [1;1;1;1;1]%nat [] ts) = inl 2 /\ snd (seq_layer [] ts) = inl 1 /\
  erase_res (snd (par_layer [1;1;1;1;1]%nat [] ts)) = erase_res (snd (seq_layer [] ts)).
Proof. vm_compute. repeat split. Qed.

(** saving: two schedules, two write orders, one tree — as long as the paths differ *)
Example C19_save_two_orders :
  let ws : list stask := [ ([98], inr [2]); ([97], inr [1]); ([99], inr [3]) ] in
  par_save [2;0;1]%nat [] ws = inr [([97],[1]); ([98],[2]); ([99],[3])] /\
  par_save [] [] ws = seq_save [] ws /\ NoDup (map fst ws).
Proof. vm_compute. repeat split; repeat constructor; cbn; intuition discriminate. Qed.

(** the former witness: two names, one file — refused by both builds, under every schedule *)
Example C19_dup_file_refused :
  let ts := [ mkTask (nm 97 1) (Some [7]) [nm 97 2] (TOk 1); mkTask (nm 98 3) (Some [7]) [nm 98 4] (TOk 2) ] in
  (forall sched, snd (par_layer sched [] ts) = inl 2) /\ snd (seq_layer [] ts) = inl 2 /\ spec_layer ts = None /\
  layer_ok ex_tasks = true.
Proof. vm_compute. repeat split. Qed.
(** file names that differ only in case are refused as well (f6784f0) *)
Example C19_case_variant_file_refused :
  let ts := [ mkTask (nm 97 1) (Some [120;46;103]) [nm 97 2] (TOk 1); mkTask (nm 98 3) (Some [88;46;103]) [nm 98 4] (TOk 2) ] in
  (forall sched, snd (par_layer sched [] ts) = inl 2) /\ snd (seq_layer [] ts) = inl 2 /\ spec_layer ts = None.
Proof. vm_compute. repeat split. Qed.
(** why the hypothesis is needed: on one path the last writer wins *)
Example C19_same_path_order_shows :
  par_save [1;0]%nat [] [ ([97], inr [1]); ([97], inr [2]) ] = inr [([97],[1])] /\
  seq_save [] [ ([97], inr [1]); ([97], inr [2]) ] = inr [([97],[2])].
Proof. vm_compute. split; reflexivity. Qed.
