(** C06 — layer and glyph containers stay consistent under any operation history.
    Statements only; proofs live in Proofs/LayerP.v.

    [step is_upper lower s o] models one container operation on a font's layer set (Layer /
    LayerContents of src/layer.rs, and save followed by load for [SaveLoad]); [Inv lower s] is
    the specification: layer names unique, exactly one default layer, first, in "glyphs", the
    only one that may be called public.default, per layer the glyph map, the file-name index and
    the taken-set in step, file names and directories distinct ignoring case, names valid.
    Everything is for ALL [is_upper], [lower], states and operations. *)
From Coq Require Import String.
Require Import Norad.Model.Base Norad.Model.FileName Norad.Model.Layer Norad.Proofs.FileNameP Norad.Proofs.LayerP.
From stdpp Require Import gmap.

(** A new font satisfies the invariant. *)
Theorem C06_inv_init : forall lower, Inv lower init.
Proof. exact inv_init. Qed.

(** Every font that loads satisfies it: loading itself checks (fixes 83f6c18, afd801a, 8d15b4b,
    59e280a, f6784f0) that layer names are unique, that directories and the glif names within a
    layer are plain and unique ignoring case, and that only "glyphs" is called public.default. *)
Theorem C06_inv_loaded : forall lower d s, load lower d = Some s -> Inv lower s.
Proof. exact inv_loaded. Qed.
(** non-vacuity: duplicate names and case-clashing directories are refused; a tree whose default
    layer is listed in the middle loads with the default layer first, and directories assigned
    afterwards avoid every loaded directory *)
Example C06_load_examples :
  load ascii_lower dup_disk = None /\ load ascii_lower clash_disk = None /\
  exists s, load ascii_lower mid_disk = Some s /\ (l_name <$> layers s) = [DEFAULT_LAYER_NAME; nb; nB] /\
    exists s2, run ascii_is_upper ascii_lower s [NewLayer [97%N]; NewLayer nA] = Some s2 /\
      layer_dir s2 [97%N] = Some (s2l "glyphs.a01"%string) /\ layer_dir s2 nA = Some (s2l "glyphs.A_01"%string).
Proof. exact load_examples. Qed.

(** Every operation preserves it, except raw [Layer::entry] access that changes the glyph map. *)
Definition C06_full : Prop :=
  forall is_upper lower s o, Inv lower s ->
    (forall site, (step is_upper lower s o).2 <> OPanic site) -> Inv lower (step is_upper lower s o).1.
Theorem C06_refuted_entry : ~ C06_full.
Proof. exact full_refuted. Qed.
Theorem C06_inv_step : forall is_upper lower s o,
  Inv lower s -> ~ KnownOp s o -> (forall site, (step is_upper lower s o).2 <> OPanic site) ->
  Inv lower (step is_upper lower s o).1.
Proof. exact inv_step. Qed.
(** the class is not a loophole: both kinds of raw access really break the containers *)
Theorem C06_known_class_witnesses :
  (Inv ascii_lower init /\ KnownOp init (EntryOrInsert DEFAULT_LAYER_NAME nA nA) /\ ~ Inv ascii_lower s_entry1 /\
   exists d, save s_entry1 = SOk d /\ exists s', load ascii_lower d = Some s' /\ report s' <> report s_entry1) /\
  (~ Inv ascii_lower s_entry2 /\ (step ascii_is_upper ascii_lower s_entry2 SaveLoad).2 = OPanic SITE_SAVE_EXPECT).
Proof. exact (conj entry_or_insert_refuted entry_remove_refuted). Qed.

(** Hence it holds after ANY finite history (from a new font, or from any state that has it). *)
Theorem C06_reachable : forall is_upper lower ops s s',
  Inv lower s -> clean is_upper lower s ops -> run is_upper lower s ops = Some s' -> Inv lower s'.
Proof. exact reachable. Qed.
Example C06_reachable_nonvacuous :
  let ops := [NewLayer nA; InsertGlyph nA nA; RenameLayer DEFAULT_LAYER_NAME nA true;
              RenameLayer nA nA true; NewLayer DEFAULT_LAYER_NAME; SaveLoad] in
  clean ascii_is_upper ascii_lower init ops /\
  exists s', run ascii_is_upper ascii_lower init ops = Some s' /\ length (layers s') = 1%nat.
Proof. exact reachable_example. Qed.

(** An operation that reports an error leaves the containers unchanged (all operations). *)
Theorem C06_error_is_noop : forall is_upper lower s o e,
  (step is_upper lower s o).2 = OErr e -> (step is_upper lower s o).1 = s.
Proof. exact error_is_noop. Qed.

(** File names and directories are single plain path components: initially, after loading, and
    after every operation (needed below: loading refuses anything else). *)
Theorem C06_plain_init : Plain init.
Proof. exact plain_init. Qed.
Theorem C06_plain_loaded : forall lower d s, load lower d = Some s -> Plain s.
Proof. exact plain_loaded. Qed.
Theorem C06_plain_step : forall is_upper lower s o,
  Inv lower s -> Plain s -> Plain (step is_upper lower s o).1.
Proof. exact plain_step. Qed.
Theorem C06_reachable_plain : forall is_upper lower ops s s',
  Inv lower s -> Plain s -> clean is_upper lower s ops -> run is_upper lower s ops = Some s' ->
  Inv lower s' /\ Plain s'.
Proof. exact reachable_plain. Qed.

(** No directory other than the default layer's equals "glyphs" ignoring case: initially, after
    loading, and after every operation — given that [lower] tells "glyphs" from "glyphs." ++ m
    (the only assumption about [lower] anywhere; true of str::to_lowercase). *)
Theorem C06_sep_init : forall lower, Sep lower init.
Proof. exact sep_init. Qed.
Theorem C06_sep_loaded : forall lower d s, load lower d = Some s -> Sep lower s.
Proof. exact sep_loaded. Qed.
Theorem C06_sep_step : forall is_upper lower s o, lower_separates lower ->
  Inv lower s -> Sep lower s -> Sep lower (step is_upper lower s o).1.
Proof. exact sep_step. Qed.
Theorem C06_reachable_sep : forall is_upper lower ops s s', lower_separates lower ->
  Inv lower s -> Sep lower s -> clean is_upper lower s ops -> run is_upper lower s ops = Some s' ->
  Inv lower s' /\ Sep lower s'.
Proof. exact reachable_sep. Qed.

(** Saving and loading a font that satisfies the invariants succeeds and yields exactly its
    layers (names, order, directories, glyph names, file names): nothing dropped, nothing phantom. *)
Theorem C06_save_load_exact : forall lower s, Inv lower s -> Plain s -> Sep lower s ->
  exists d, save s = SOk d /\ exists s', load lower d = Some s' /\ layers s' = layers s /\
            Inv lower s' /\ Plain s' /\ Sep lower s'.
Proof. exact save_load_exact. Qed.

(** The only panics an operation can raise on a consistent font are the documented 99-tries
    panic of the file-name function and [Glyph::new] on an invalid name; the [unwrap] in
    [rename_layer] (fixed by b591b93), [layers[0]] and the [expect] in [save] are unreachable. *)
Theorem C06_panic_sites : forall is_upper lower s o site,
  Inv lower s -> ~ KnownOp s o -> (step is_upper lower s o).2 = OPanic site ->
  site = SITE_99_TRIES \/ site = SITE_GLYPH_NEW.
Proof. exact panic_sites. Qed.
