(** C06 — layer and glyph containers stay consistent under any operation history.
    Statements only; proofs live in Proofs/LayerP.v.

    [step is_upper lower s o] models one container operation on a font's layer set (Layer /
    LayerContents of src/layer.rs, and save followed by load for [SaveLoad]); [Inv lower s] is
    the specification: layer names unique, exactly one default layer, first, in "glyphs", the
    only one that may be called public.default, per layer the glyph map, the file-name index and
    the taken-set in step, file names and directories distinct ignoring case, names valid.
    Everything is for ALL [is_upper], [lower], states and operations. *)
Require Import Norad.Model.Base Norad.Model.FileName Norad.Model.Layer Norad.Proofs.FileNameP Norad.Proofs.LayerP.
From stdpp Require Import gmap.

(** A new font satisfies the invariant. *)
Theorem C06_inv_init : forall lower, Inv lower init.
Proof. exact inv_init. Qed.

(** A loaded font satisfies it.  Loading itself checks (fixes 83f6c18, afd801a, 8d15b4b, 59e280a)
    that layer names and directories are unique, that only "glyphs" is called public.default and
    that directories and glif names are plain and unique — comparing EXACTLY; [wf_disk] is what it
    does not check: directories, and glif names within a layer, that are equal ignoring case. *)
Theorem C06_inv_loaded : forall lower d s, wf_disk lower d -> load lower d = Some s -> Inv lower s.
Proof. exact inv_loaded. Qed.
(** ... without it: a tree with duplicate layer names is refused, but one with two directories
    that differ only by case loads, violates the invariant, and after [remove] + [new_layer] a
    directory is assigned twice and saving fails (known finding load-case-clash). *)
Theorem C06_loaded_refuted :
  load ascii_lower dup_disk = None /\
  exists s, load ascii_lower clash_disk = Some s /\ ~ Inv ascii_lower s /\
    exists s2, run ascii_is_upper ascii_lower s [RemoveLayer nB; NewLayer nA] = Some s2 /\
               (step ascii_is_upper ascii_lower s2 SaveLoad).2 = OErr SaveErr.
Proof. exact load_case_clash_refuted. Qed.

(** Every operation preserves it, except raw [Layer::entry] access that changes the glyph map. *)
Definition C06_full : Prop :=
  forall is_upper lower s o, Inv lower s ->
    (forall site, (step is_upper lower s o).2 <> OPanic site) -> Inv lower (step is_upper lower s o).1.
Theorem C06_refuted_entry : ~ C06_full.
Proof. exact full_refuted. Qed.
Theorem C06_inv_step : forall is_upper lower s o,
  Inv lower s -> ~ KnownOp s o -> (forall site, (step is_upper lower s o).2 <> OPanic site) ->
  Inv lower (step is_upper lower s o).1.
Proof. exact inv_step. Qed.
(** the class is not a loophole: both kinds of raw access really break the containers *)
Theorem C06_known_class_witnesses :
  (Inv ascii_lower init /\ KnownOp init (EntryOrInsert DEFAULT_LAYER_NAME nA nA) /\ ~ Inv ascii_lower s_entry1 /\
   exists d, save s_entry1 = SOk d /\ exists s', load ascii_lower d = Some s' /\ report s' <> report s_entry1) /\
  (~ Inv ascii_lower s_entry2 /\ (step ascii_is_upper ascii_lower s_entry2 SaveLoad).2 = OPanic SITE_SAVE_EXPECT).
Proof. exact (conj entry_or_insert_refuted entry_remove_refuted). Qed.

(** Hence it holds after ANY finite history (from a new font, or from any state that has it). *)
Theorem C06_reachable : forall is_upper lower ops s s',
  Inv lower s -> clean is_upper lower s ops -> run is_upper lower s ops = Some s' -> Inv lower s'.
Proof. exact reachable. Qed.
Example C06_reachable_nonvacuous :
  let ops := [NewLayer nA; InsertGlyph nA nA; RenameLayer DEFAULT_LAYER_NAME nA true;
              RenameLayer nA nA true; NewLayer DEFAULT_LAYER_NAME; SaveLoad] in
  clean ascii_is_upper ascii_lower init ops /\
  exists s', run ascii_is_upper ascii_lower init ops = Some s' /\ length (layers s') = 1%nat.
Proof. exact reachable_example. Qed.

(** An operation that reports an error leaves the containers unchanged (all operations). *)
Theorem C06_error_is_noop : forall is_upper lower s o e,
  (step is_upper lower s o).2 = OErr e -> (step is_upper lower s o).1 = s.
Proof. exact error_is_noop. Qed.

(** File names and directories are single plain path components: initially, after loading, and
    after every operation (needed below: loading refuses anything else). *)
Theorem C06_plain_init : Plain init.
Proof. exact plain_init. Qed.
Theorem C06_plain_loaded : forall lower d s, load lower d = Some s -> Plain s.
Proof. exact plain_loaded. Qed.
Theorem C06_plain_step : forall is_upper lower s o,
  Inv lower s -> Plain s -> Plain (step is_upper lower s o).1.
Proof. exact plain_step. Qed.
Theorem C06_reachable_plain : forall is_upper lower ops s s',
  Inv lower s -> Plain s -> clean is_upper lower s ops -> run is_upper lower s ops = Some s' ->
  Inv lower s' /\ Plain s'.
Proof. exact reachable_plain. Qed.

(** Saving and loading a font that satisfies the invariant (and whose names are plain) succeeds
    and yields exactly its layers (names, order, directories, glyph names, file names): nothing
    dropped, nothing phantom. *)
Theorem C06_save_load_exact : forall lower s, Inv lower s -> Plain s ->
  exists d, save s = SOk d /\ exists s', load lower d = Some s' /\ layers s' = layers s /\ Inv lower s' /\ Plain s'.
Proof. exact save_load_exact. Qed.

(** The only panics an operation can raise on a consistent font are the documented 99-tries
    panic of the file-name function and [Glyph::new] on an invalid name; the [unwrap] in
    [rename_layer] (fixed by b591b93), [layers[0]] and the [expect] in [save] are unreachable. *)
Theorem C06_panic_sites : forall is_upper lower s o site,
  Inv lower s -> ~ KnownOp s o -> (step is_upper lower s o).2 = OPanic site ->
  site = SITE_99_TRIES \/ site = SITE_GLYPH_NEW.
Proof. exact panic_sites. Qed.
