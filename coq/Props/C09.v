(** C09 — a saved tree depends only on the font and stays inside the target.
    Statements only; proofs live in Proofs/SaveP.v. *)
From stdpp Require Import gmap strings.
From Norad.Model Require Import Fs Save.
From Norad.Proofs Require Import FsP SaveP.
Open Scope string_scope.
Open Scope list_scope.

(** ** The full statement, and why the code as it is does not meet it (finding F8) *)

(** "Nothing outside the target directory is created, modified or removed", for every font. *)
Definition C09_full : Prop :=
  ∀ (f : font_abs) (t : path) (m : sfs) (o : outcome) (m' : sfs) (p : path),
    wf_fs m → save f t m = (o, m') → ¬ under t p → m' !! p = m !! p.

(** A glif path taken from contents.plist is joined onto the layer directory unchecked: with
    [../../outside.glif] the save writes next to the target. *)
Definition f8_font : font_abs :=
  Font 3 false true true (Content 1 false) None None None None None (Content 3 false)
       [Layer "public.default" [Normal "glyphs"] (Content 4 false) None
              [Glif [ParentDir; ParentDir; Normal "outside.glif"] (Some (Content 6 false))]]
       (Store [] []) (Store [] []).
Definition f8_fs : sfs := list_to_map [([], Dir); (["sb"], Dir)].
Theorem C09_refuted_F8 : ¬ C09_full.
Proof.
  intros H.
  specialize (H f8_font ["sb"; "t.ufo"] f8_fs Saved (save f8_font ["sb"; "t.ufo"] f8_fs).2 ["sb"; "outside.glif"]).
  assert (Hw : wf_fs f8_fs).
  { split; [reflexivity|]. intros p n Hp Hne.
    assert (p = ["sb"]) as ->; [|reflexivity].
    unfold f8_fs in Hp. cbn in Hp.
    rewrite lookup_insert_Some in Hp. destruct Hp as [[<- _]|[_ Hp]]; [done|].
    rewrite lookup_insert_Some in Hp. destruct Hp as [[<- _]|[_ Hp]]; [done|].
    by rewrite lookup_empty in Hp. }
  specialize (H Hw).
  assert (Hs : save f8_font ["sb"; "t.ufo"] f8_fs = (Saved, (save f8_font ["sb"; "t.ufo"] f8_fs).2)).
  { vm_compute. reflexivity. }
  specialize (H Hs).
  assert (Hu : ¬ under ["sb"; "t.ufo"] ["sb"; "outside.glif"]).
  { intros [k Hk]. discriminate. }
  specialize (H Hu). vm_compute in H. discriminate.
Qed.
Theorem C09_F8_in_class : KnownClass_F8 f8_font.
Proof. intros H%layers_safeb_spec. vm_compute in H. discriminate. Qed.

(** the class is decidable, so "not in the class" is the positive statement [layers_safe]:
    every layer directory and every glif file name is a single plain path component *)
Theorem C09_class_decidable : ∀ f, layers_safe f ∨ KnownClass_F8 f.
Proof. exact F8_decidable. Qed.

(** ** Outside the class *)

(** Nothing outside the target changes — whatever the outcome of the save, for every prior
    file system. *)
Theorem C09_frame :
  ∀ (f : font_abs) (t : path) (m : sfs) (o : outcome) (m' : sfs) (p : path),
    layers_safe f → save f t m = (o, m') → ¬ under t p → m' !! p = m !! p.
Proof. exact save_frame. Qed.

(** After a successful save, what lies at and below the target is the tree the font determines
    ([tree_of], a function of the font with its store cells read), placed at the target: no
    dependence on what the file system held before, no remains of it. *)
Theorem C09_tree_function :
  ∀ (f : font_abs) (t : path) (m m' : sfs),
    wf_fs m → layers_safe f → save f t m = (Saved, m') →
    ∃ f', force_stores m f = Some f' ∧ restrict_under t m' = place t (tree_of f').
Proof. exact tree_function. Qed.

(** Reading the store cells does not depend on the file system once they are all loaded, so two
    successful saves of such a font — to any targets, over anything — leave the same tree. *)
Theorem C09_same_as_fresh :
  ∀ (f : font_abs) (t1 t2 : path) (m1 m1' m2 m2' : sfs),
    wf_fs m1 → wf_fs m2 → layers_safe f →
    store_ok (fa_data f) = true → store_ok (fa_images f) = true →
    save f t1 m1 = (Saved, m1') → save f t2 m2 = (Saved, m2') →
    ∃ tr, restrict_under t1 m1' = place t1 tr ∧ restrict_under t2 m2' = place t2 tr.
Proof.
  intros f t1 t2 m1 m1' m2 m2' W1 W2 Hs Hd Hi S1 S2.
  destruct (tree_function _ _ _ _ W1 Hs S1) as (f1 & F1 & E1).
  destruct (tree_function _ _ _ _ W2 Hs S2) as (f2 & F2 & E2).
  rewrite (forced_independent m1 m2 f Hd Hi) in F1. rewrite F1 in F2. injection F2 as <-.
  by exists (tree_of f1).
Qed.

(** Optional files: present, as a file holding the part's content, exactly when the part is
    non-empty (metainfo.plist and layercontents.plist: always).  Needs layer directories that
    do not collide with the names the font writes itself. *)
Theorem C09_optional_files :
  ∀ (f : font_abs) (tf : topfile),
    Forall layer_unreserved (fa_layers f) →
    tree_of f !! [topfile_name tf] = File <$> topfile_content f tf.
Proof. exact optional_top. Qed.
Theorem C09_optional_layerinfo :
  ∀ (f : font_abs) (l : layer_abs),
    names_unreserved f → l ∈ fa_layers f →
    tree_of f !! [rel_name (la_dir l); LAYER_INFO_FILE] = File <$> la_info l.
Proof. exact optional_layerinfo. Qed.
Theorem C09_optional_data_dir :
  ∀ f, Forall layer_unreserved (fa_layers f) → store_ok (fa_data f) = true → store_keys_ok (fa_data f) →
       tree_of f !! [DATA_DIR] = match st_cells (fa_data f) with [] => None | _ => Some Dir end.
Proof. exact optional_data_dir. Qed.
Theorem C09_optional_images_dir :
  ∀ f, Forall layer_unreserved (fa_layers f) → store_ok (fa_images f) = true → store_keys_ok (fa_images f) →
       tree_of f !! [IMAGES_DIR] = match st_cells (fa_images f) with [] => None | _ => Some Dir end.
Proof. exact optional_images_dir. Qed.

(** Non-vacuity: a font with every optional part, two layers, nested data and an image, saved
    over a target that holds other things: the save succeeds, the hypotheses hold, the stale
    file is gone, the bystander is untouched. *)
Definition ex9_font : font_abs :=
  Font 3 false true true (Content 1 false) (Some (Content 2 false)) (Some (Content 12 false)) None
       (Some (Content 13 false)) None (Content 3 false)
       [Layer "public.default" [Normal "glyphs"] (Content 4 false) None [Glif [Normal "a.glif"] (Some (Content 5 false))];
        Layer "bg" [Normal "glyphs.bg"] (Content 14 false) (Some (Content 15 false)) []]
       (Store [] [(["d"; "e.bin"], Loaded (Content 7 false))]) (Store [] [(["i.png"], Loaded (Content 9 true))]).
Definition ex9_fs : sfs :=
  list_to_map [([], Dir); (["by.txt"], File (Content 99 false)); (["t"], Dir); (["t"; "stale"], File (Content 10 false));
               (["t"; "groups.plist"], File (Content 11 false))].
Example C09_example :
  layers_safe ex9_font ∧ names_unreserved ex9_font ∧
  ∃ m', save ex9_font ["t"] ex9_fs = (Saved, m') ∧
        m' !! ["t"; "stale"] = None ∧ m' !! ["t"; "groups.plist"] = None ∧
        m' !! ["by.txt"] = Some (File (Content 99 false)) ∧
        m' !! ["t"; "data"; "d"; "e.bin"] = Some (File (Content 7 false)) ∧
        tree_of ex9_font !! ["glyphs.bg"; "layerinfo.plist"] = Some (File (Content 15 false)) ∧
        tree_of ex9_font !! ["kerning.plist"] = Some (File (Content 13 false)) ∧
        tree_of ex9_font !! ["groups.plist"] = None.
Proof.
  split; [apply layers_safeb_spec; reflexivity|]. split.
  - split.
    + repeat constructor; cbn; set_solver.
    + cbn. repeat constructor; set_solver.
  - eexists. split; [vm_compute; reflexivity|]. repeat split; vm_compute; reflexivity.
Qed.
