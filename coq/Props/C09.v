(** C09 — a saved tree depends only on the font and stays inside the target.
    Statements only; proofs live in Proofs/SaveP.v. *)
From stdpp Require Import gmap strings.
From Norad.Model Require Import Fs Save.
From Norad.Proofs Require Import FsP SaveP.
Open Scope string_scope.
Open Scope list_scope.

(** ** Paths

    The model joins layer directories and glif paths onto the target exactly as the code does,
    so the theorems below carry the hypothesis [layers_safe f]: every layer directory and glif
    file name of the font is a single plain path component.  Every font that [load] returns
    satisfies it ([C09_loaded_fonts_safe]: since 59e280a / 8d15b4b contents.plist and
    layercontents.plist entries are validated; this was finding F8), and the file-name algorithm
    only produces such names (C07).  The former witness of F8 is kept as a regression input:
    its abstraction is outside [layers_safe], and the loader now refuses it. *)
From Norad.Model Require Import Request.
From Norad.Proofs Require Import RequestP.

Theorem C09_loaded_fonts_safe :
  ∀ (r : request) (t : path) (m : lfs) (f : lfont) (fa : font_abs),
    val (load r t) m = inr f → abstracts fa f → layers_safe fa.
Proof. intros r t m f fa H Ha. eapply abstracts_safe; [exact Ha|]. by eapply load_safe. Qed.

Definition f8_contents : list (string * rel) :=
  [("a", [Normal "a.glif"]); ("evil", [ParentDir; ParentDir; Normal "outside.glif"])].
Definition f8_fs : lfs :=
  list_to_map
    [([], Dir); (["u"], Dir); (["u"; "metainfo.plist"], File (LMeta 3 1));
     (["u"; "layercontents.plist"], File (LLayerContents [("public.default", [Normal "glyphs"])]));
     (["u"; "glyphs"], Dir); (["u"; "glyphs"; "contents.plist"], File (LContents f8_contents));
     (["u"; "glyphs"; "a.glif"], File (LGlif 1)); (["outside.glif"], File (LGlif 2))].
Example C09_F8_rejected_at_load :
  val (load req_all ["u"]) f8_fs = inl (LayerL "public.default" LInvalidGlyphFileName).
Proof. vm_compute. reflexivity. Qed.

(** Fonts built through the API.  [Layer.state] is the container model of C06/C07
    (Model/Layer.v); [abstracts_containers fa s] says that the save-side abstraction [fa] has, layer
    by layer, the directory of [s] and only glif paths that are file names of [s]'s index, each
    parsed as [Path::components] parses a text ([rel_of], the function of Model/Store.v used by
    C16).  After ANY history of container operations (without the raw entry access, not
    panicking) from a new font - or from any loaded font - the abstraction is [layers_safe]:
    C06_reachable_plain gives plain names, and a plain name is exactly one normal component. *)
Require Norad.Model.FileName Norad.Proofs.FileNameP Norad.Model.Layer Norad.Proofs.LayerP Norad.Model.Store Norad.Proofs.SaveBuiltP.

Theorem C09_safe_when_built :
  ∀ is_upper lower ops (s : Layer.state) (fa : font_abs),
    Layer.clean is_upper lower Layer.init ops → Layer.run is_upper lower Layer.init ops = Some s →
    SaveBuiltP.abstracts_containers fa s → layers_safe fa.
Proof. exact SaveBuiltP.safe_when_built. Qed.
Theorem C09_safe_when_loaded_and_modified :
  ∀ is_upper lower d (s0 : Layer.state) ops (s : Layer.state) (fa : font_abs),
    Layer.load lower d = Some s0 →
    Layer.clean is_upper lower s0 ops → Layer.run is_upper lower s0 ops = Some s →
    SaveBuiltP.abstracts_containers fa s → layers_safe fa.
Proof. exact SaveBuiltP.safe_when_loaded_and_modified. Qed.
(** every container state has such an abstraction (so the theorems are not vacuous) *)
Theorem C09_abstraction_exists : ∀ s : Layer.state, SaveBuiltP.abstracts_containers (SaveBuiltP.abs_font s) s.
Proof. exact SaveBuiltP.abs_font_abstracts. Qed.
(** Store keys.  [font_abs] keeps store keys as lists of plain names.  That is what they are
    under C16's invariant (every key of a store built or loaded through the API): all components
    normal, none lost, at least one. *)
Theorem C09_store_keys_plain :
  ∀ k its t c, Store.C16_inv k its → In (t, c) its →
    map SaveBuiltP.to_comp (Store.components t) = map Normal (SaveBuiltP.key_of t) ∧ SaveBuiltP.key_of t ≠ [].
Proof. exact SaveBuiltP.store_keys_plain. Qed.

(** hence, for every font built through the API, without any hypothesis on paths: *)
Theorem C09_frame_built :
  ∀ is_upper lower ops (s : Layer.state) (fa : font_abs) (t : path) (m : sfs) (o : outcome) (m' : sfs) (p : path),
    Layer.clean is_upper lower Layer.init ops → Layer.run is_upper lower Layer.init ops = Some s →
    SaveBuiltP.abstracts_containers fa s →
    save fa t m = (o, m') → ¬ under t p → m' !! p = m !! p.
Proof.
  intros iu lo ops s fa t m o m' p Hc Hr Ha. apply save_frame.
  by eapply SaveBuiltP.safe_when_built.
Qed.
Theorem C09_tree_function_built :
  ∀ is_upper lower ops (s : Layer.state) (fa : font_abs) (t : path) (m m' : sfs),
    Layer.clean is_upper lower Layer.init ops → Layer.run is_upper lower Layer.init ops = Some s →
    SaveBuiltP.abstracts_containers fa s →
    wf_fs m → save fa t m = (Saved, m') →
    ∃ f', force_stores m fa = Some f' ∧ restrict_under t m' = place t (tree_of f').
Proof.
  intros iu lo ops s fa t m m' Hc Hr Ha Hwf. apply tree_function; [done|].
  by eapply SaveBuiltP.safe_when_built.
Qed.
(** non-vacuity: two glyphs whose names differ by case and two such layers, built through the
    API; the abstraction has the assigned names as single components *)
Example C09_built_example :
  let ops := [Layer.InsertGlyph FileName.DEFAULT_LAYER_NAME LayerP.nA;
              Layer.InsertGlyph FileName.DEFAULT_LAYER_NAME [97; 95]%N; Layer.NewLayer LayerP.nA] in
  Layer.clean FileNameP.ascii_is_upper FileNameP.ascii_lower Layer.init ops ∧
  ∃ s, Layer.run FileNameP.ascii_is_upper FileNameP.ascii_lower Layer.init ops = Some s ∧
       map la_dir (fa_layers (SaveBuiltP.abs_font s)) = [[Normal "glyphs"]; [Normal "glyphs.A_"]] ∧
       layers_safe (SaveBuiltP.abs_font s).
Proof.
  split.
  - cbn. repeat split; intros H; vm_compute in H; tauto.
  - eexists. split; [vm_compute; reflexivity|]. split; [vm_compute; reflexivity|].
    apply layers_safeb_spec. vm_compute. reflexivity.
Qed.

(** ** Frame and tree *)

(** Nothing outside the target changes — whatever the outcome of the save, for every prior
    file system. *)
Theorem C09_frame :
  ∀ (f : font_abs) (t : path) (m : sfs) (o : outcome) (m' : sfs) (p : path),
    layers_safe f → save f t m = (o, m') → ¬ under t p → m' !! p = m !! p.
Proof. exact save_frame. Qed.

(** [save] is a function of the font and the file system and of nothing else: there is no state
    that one save could leave behind for the next.  That the code has none either (no scratch
    buffer, cache or counter surviving a save - in particular a FAILED save of another font) is what
    the cross-font histories of the correspondence run check, with the reference save of every case
    running in a thread of its own.
    After a successful save, what lies at and below the target is the tree the font determines
    ([tree_of], a function of the font with its store cells read), placed at the target: no
    dependence on what the file system held before, no remains of it. *)
Theorem C09_tree_function :
  ∀ (f : font_abs) (t : path) (m m' : sfs),
    wf_fs m → layers_safe f → save f t m = (Saved, m') →
    ∃ f', force_stores m f = Some f' ∧ restrict_under t m' = place t (tree_of f').
Proof. exact tree_function. Qed.

(** Reading the store cells does not depend on the file system once they are all loaded, so two
    successful saves of such a font — to any targets, over anything — leave the same tree. *)
Theorem C09_same_as_fresh :
  ∀ (f : font_abs) (t1 t2 : path) (m1 m1' m2 m2' : sfs),
    wf_fs m1 → wf_fs m2 → layers_safe f →
    store_ok (fa_data f) = true → store_ok (fa_images f) = true →
    save f t1 m1 = (Saved, m1') → save f t2 m2 = (Saved, m2') →
    ∃ tr, restrict_under t1 m1' = place t1 tr ∧ restrict_under t2 m2' = place t2 tr.
Proof.
  intros f t1 t2 m1 m1' m2 m2' W1 W2 Hs Hd Hi S1 S2.
  destruct (tree_function _ _ _ _ W1 Hs S1) as (f1 & F1 & E1).
  destruct (tree_function _ _ _ _ W2 Hs S2) as (f2 & F2 & E2).
  rewrite (forced_independent m1 m2 f Hd Hi) in F1. rewrite F1 in F2. injection F2 as <-.
  by exists (tree_of f1).
Qed.

(** Optional files: present, as a file holding the part's content, exactly when the part is
    non-empty (metainfo.plist and layercontents.plist: always).  Needs layer directories that
    do not collide with the names the font writes itself. *)
Theorem C09_optional_files :
  ∀ (f : font_abs) (tf : topfile),
    Forall layer_unreserved (fa_layers f) →
    tree_of f !! [topfile_name tf] = File <$> topfile_content f tf.
Proof. exact optional_top. Qed.
Theorem C09_optional_layerinfo :
  ∀ (f : font_abs) (l : layer_abs),
    names_unreserved f → l ∈ fa_layers f →
    tree_of f !! [rel_name (la_dir l); LAYER_INFO_FILE] = File <$> la_info l.
Proof. exact optional_layerinfo. Qed.
Theorem C09_optional_data_dir :
  ∀ f, Forall layer_unreserved (fa_layers f) → store_ok (fa_data f) = true → store_keys_ok (fa_data f) →
       tree_of f !! [DATA_DIR] = match st_cells (fa_data f) with [] => None | _ => Some Dir end.
Proof. exact optional_data_dir. Qed.
Theorem C09_optional_images_dir :
  ∀ f, Forall layer_unreserved (fa_layers f) → store_ok (fa_images f) = true → store_keys_ok (fa_images f) →
       tree_of f !! [IMAGES_DIR] = match st_cells (fa_images f) with [] => None | _ => Some Dir end.
Proof. exact optional_images_dir. Qed.

(** Non-vacuity: a font with every optional part, two layers, nested data and an image, saved
    over a target that holds other things: the save succeeds, the hypotheses hold, the stale
    file is gone, the bystander is untouched. *)
Definition ex9_font : font_abs :=
  Font 3 false true true (Content 1 false) (Some (Content 2 false)) (Some (Content 12 false)) None
       (Some (Content 13 false)) None (Content 3 false)
       [Layer "public.default" [Normal "glyphs"] (Content 4 false) None [Glif [Normal "a.glif"] (Some (Content 5 false))];
        Layer "bg" [Normal "glyphs.bg"] (Content 14 false) (Some (Content 15 false)) []]
       (Store [] [(["d"; "e.bin"], Loaded (Content 7 false))]) (Store [] [(["i.png"], Loaded (Content 9 true))]).
Definition ex9_fs : sfs :=
  list_to_map [([], Dir); (["by.txt"], File (Content 99 false)); (["t"], Dir); (["t"; "stale"], File (Content 10 false));
               (["t"; "groups.plist"], File (Content 11 false))].
Example C09_example :
  layers_safe ex9_font ∧ names_unreserved ex9_font ∧
  ∃ m', save ex9_font ["t"] ex9_fs = (Saved, m') ∧
        m' !! ["t"; "stale"] = None ∧ m' !! ["t"; "groups.plist"] = None ∧
        m' !! ["by.txt"] = Some (File (Content 99 false)) ∧
        m' !! ["t"; "data"; "d"; "e.bin"] = Some (File (Content 7 false)) ∧
        tree_of ex9_font !! ["glyphs.bg"; "layerinfo.plist"] = Some (File (Content 15 false)) ∧
        tree_of ex9_font !! ["kerning.plist"] = Some (File (Content 13 false)) ∧
        tree_of ex9_font !! ["groups.plist"] = None.
Proof.
  split; [apply layers_safeb_spec; reflexivity|]. split.
  - split.
    + repeat constructor; cbn; set_solver.
    + cbn. repeat constructor; set_solver.
  - eexists. split; [vm_compute; reflexivity|]. repeat split; vm_compute; reflexivity.
Qed.
