(** C14 — format 1 and 2 font info is converted to format 3 as the specification prescribes.
    Statements only; proofs live in Proofs/NumP.v and Proofs/UpconvP.v.

    Model: Model/Upconv.v (norad's converters, field by field, as coded).
    Specification: Model/SpecTables.v (the specification's conversion tables as data and a
    generic table-driven converter).  Numbers: Model/Num.v (exact dyadic binary64). *)
Require Import Norad.Model.Upconv Norad.Proofs.NumP Norad.Proofs.UpconvP.
Require Norad.Model.FontInfo Norad.Proofs.FontInfoP.
From Coq Require Import QArith Qabs.
Open Scope string_scope.
Open Scope Z_scope.

(** ** the converters are the specification's tables, for ALL legacy records *)
Theorem C14_v1_refines_spec : forall r : kv, conv_v1 r = table_convert spec_v1_table r.
Proof. exact conv_v1_refines_spec. Qed.

Theorem C14_v2_refines_spec : forall r : kv, conv_v2 r = table_convert spec_v2_table r.
Proof. exact conv_v2_refines_spec. Qed.

(** and so is the whole load pipeline (typed reader, conversion, validation, lib data) *)
Theorem C14_load_refines_spec : forall (q : request) (u : ufo), load_model q u = load_spec q u.
Proof. exact load_model_is_spec. Qed.

(** every enumeration code outside the tables is an error -- for all integers / all strings,
    not a window *)
Theorem C14_unknown_font_style : forall z : Z, ~ In z [64; 1; 32; 33; 0] ->
  font_style (Some (VInt z)) = Err (UnknownFontStyle z).
Proof. exact font_style_unknown. Qed.

Theorem C14_unknown_ms_char_set : forall z : Z,
  ~ In z [0; 1; 2; 77; 128; 129; 130; 134; 136; 161; 162; 163; 177; 178; 186; 200; 204; 222; 238; 255] ->
  ms_char_set (Some (VInt z)) = Err (UnknownMsCharSet z).
Proof. exact ms_char_set_unknown. Qed.

Theorem C14_unknown_width_name : forall s : string,
  ~ In s (map fst width_name_table) -> width_name (Some (VStr s)) = Err (UnknownWidthClass s).
Proof. exact width_name_unknown. Qed.

(** and an unknown value anywhere makes the whole conversion fail *)
Theorem C14_unknown_enum_is_error : forall t r lk k kd v e,
  In (lk, k, kd) t -> get r lk = Some v -> apply_kind kd v = Err e ->
  exists e', table_convert t r = Err e'.
Proof. exact table_convert_error. Qed.

Example C14_unknown_enum_witness :
  conv_v1 [("fontStyle", VInt 2)] = Err (UnknownFontStyle 2) /\
  conv_v1 [("msCharSet", VInt 3); ("fontStyle", VInt 2)] = Err (UnknownMsCharSet 3) /\
  conv_v1 [("widthName", VStr "Bold"); ("msCharSet", VInt 3)] = Err (UnknownWidthClass "Bold") /\
  conv_v1 [("fontStyle", VInt 64); ("msCharSet", VInt 186); ("widthName", VStr "medium");
           ("weightValue", VInt (-1)); ("versionMinor", VInt (-3))]
  = Ok [("openTypeOS2WidthClass", VInt 5); ("postscriptWindowsCharacterSet", VInt 15);
        ("styleMapStyleName", VStr "regular"); ("versionMinor", VInt 3)].
Proof. repeat split; vm_compute; reflexivity. Qed.

(** ** the tables are complete and injective *)
Theorem C14_every_legacy_key_mapped :
  (forall k, In k (ufo1_attributes ++ ufo1_reference_extras) <-> In k (map legacy_of spec_v1_table)) /\
  (forall k, In k ufo2_attributes <-> In k (map legacy_of spec_v2_table)).
Proof.
  split; intros k; split.
  - apply every_v1_key_mapped. - apply only_v1_keys_mapped.
  - apply every_v2_key_mapped. - apply only_v2_keys_mapped.
Qed.

Theorem C14_target_keys_distinct :
  NoDup (map target_of spec_v1_table) /\ NoDup (map target_of spec_v2_table).
Proof. split; [exact v1_targets_distinct|exact v2_targets_distinct]. Qed.

(** hence: after a successful conversion each legacy attribute sits under the prescribed
    format-3 attribute with the prescribed value, and nothing else is set *)
Theorem C14_attribute_lands : forall t r i lk k kd,
  NoDup (map target_of t) -> In (lk, k, kd) t -> table_convert t r = Ok i ->
  match get r lk with
  | None => get i k = None
  | Some v => exists o, apply_kind kd v = Ok o /\ get i k = o
  end.
Proof. exact table_convert_row. Qed.

Theorem C14_nothing_else_set : forall t r i k v,
  table_convert t r = Ok i -> In (k, v) i -> In k (map target_of t).
Proof. exact table_convert_keys. Qed.

Example C14_lands_witness :
  table_convert spec_v1_table [("otStyleName", VStr "S"); ("otFamilyName", VStr "F")]
  = Ok [("openTypeNamePreferredFamilyName", VStr "F"); ("openTypeNamePreferredSubfamilyName", VStr "S")].
Proof. vm_compute. reflexivity. Qed.

(** ** numeric conversions *)
(** rounding: the integer is within one half of the legacy value (any finite binary64 value
    whose rounded value fits the target type; outside it the cast saturates) *)
Theorem C14_round_bound : forall m e : Z,
  I32_MIN <= round_Z m e <= I32_MAX ->
  (Qabs (inject_Z (sat_i32 (f_round (Fin m e))) - f2Q m e) <= 1 # 2)%Q.
Proof. exact conv_round_i32_bound. Qed.

Theorem C14_round_abs_bound : forall m e : Z,
  Z.abs (round_Z m e) <= U32_MAX ->
  (Qabs (inject_Z (sat_u32 (f_abs (f_round (Fin m e)))) - Qabs (f2Q m e)) <= 1 # 2)%Q.
Proof. exact conv_round_abs_u32_bound. Qed.

(** ties go away from zero: 2.5 -> 3, -2.5 -> -3 *)
Theorem C14_round_ties_away : forall k : Z, 0 <= k ->
  round_Z (2 * k + 1) (-1) = k + 1 /\ round_Z (- (2 * k + 1)) (-1) = - (k + 1).
Proof. exact round_Z_tie_away. Qed.

(** the casts never leave the target type (saturation; NaN |-> 0) *)
Theorem C14_saturation : forall x : f64,
  I32_MIN <= sat_i32 x <= I32_MAX /\ 0 <= sat_u32 x <= U32_MAX /\ sat_i32 NaN = 0 /\ sat_u32 NaN = 0.
Proof.
  intros x. split; [apply sat_i32_bounds|]. split; [apply sat_u32_bounds|]. split; reflexivity.
Qed.

Example C14_round_witness :
  sat_i32 (f_round (Fin 5 (-1))) = 3 /\ sat_i32 (f_round (Fin (-5) (-1))) = -3 /\
  sat_i32 (f_round (Fin 3 31)) = 2147483647 /\ sat_u32 (f_abs (f_round (Fin (-7) (-2)))) = 2 /\
  sat_i32 (f_round (Fin 9007199254740991 (-54))) = 0 /\ sat_i32 (f_round (Inf true)) = -2147483648.
Proof. repeat split; vm_compute; reflexivity. Qed.

(** absolute values are non-negative, and keep the magnitude *)
Theorem C14_abs_nonneg :
  (forall x : f64, f_sign_positive (f_abs x) = true) /\
  (forall x : f64, x <> NaN -> f_leb (Fin 0 0) (f_abs x) = true) /\
  (forall m e : Z, (f2Q (Z.abs m) e == Qabs (f2Q m e))%Q) /\
  (forall z : Z, 0 <= unsigned_abs z) /\
  (forall z : Z, in_i32 z = true -> in_u32 (unsigned_abs z) = true).
Proof.
  split; [exact f_abs_sign_positive|]. split; [exact f_abs_nonneg|]. split; [exact f_abs_value|].
  split; [exact unsigned_abs_nonneg|exact unsigned_abs_u32].
Qed.

(** so the [unwrap] on [NonNegativeIntegerOrFloat::new(v.abs())] cannot fire (a C03 site) *)
Theorem C14_no_panic : forall t r s, table_convert t r <> Panic s.
Proof. exact table_convert_no_panic. Qed.

(** ** the result is a format-3 info *)
(** a legacy record of the legacy types converts to values of the format-3 types (integers in
    range, enumerations inside their value sets, unsigned attributes non-negative) *)
Theorem C14_result_v3_typed :
  (forall r i, typed ufo1_schema r -> conv_v1 r = Ok i -> typed ufo3_schema i) /\
  (forall r i, typed ufo2_schema r -> conv_v2 r = Ok i -> typed ufo3_schema i).
Proof.
  split; intros r i Ht H.
  - rewrite conv_v1_refines_spec in H. eapply table_convert_typed; eauto. exact v1_rows_typed.
  - rewrite conv_v2_refines_spec in H. eapply table_convert_typed; eauto. exact v2_rows_typed.
Qed.

(** what the typed reader hands to the converter has the legacy types *)
Theorem C14_reader_typed : forall schema raw r,
  decode_fields schema raw = Some r -> typed schema r.
Proof. exact decode_fields_typed. Qed.

(** ** the resulting font passes validation, and its info can be saved

    The validator of the model IS C13's [FontInfo.fi_validate] (characterised by
    [C13_validate_iff_spec]), run on the projection [project] of the converted key-value info
    onto C13's record of rule-relevant fields.  The projection
      - keeps openTypeHeadCreated (bytes), openTypeOS2Selection and openTypeOS2FamilyClass (as
        unsigned numbers; exact by [C14_projection_exact]) and the lengths of the six PostScript
        lists;
      - forgets the values of the members of those lists (each becomes 0; the rules read only
        lengths) and all other attributes (no rule reads them);
      - has [None] for gasp records, guidelines and the WOFF attributes, which is exact because
        these attributes are absent from every loaded legacy info ([C14_projection_exact]). *)
Theorem C14_result_v3_valid : forall q u l,
  load_model q u = Ok l -> l_version l = 3 /\ FontInfo.fi_spec (project (l_info l)).
Proof.
  intros q u l H. destruct (load_result_valid q u l H) as [V S]. split; [exact V|].
  apply validate_ok_spec. exact S.
Qed.

(** the info part of "can be saved": [Font::save]'s font-info step (validate before the target
    is touched, then serialise) succeeds on the loaded info and writes exactly it.  The rest of
    a save (layers, lib, stores: C01/C08/C09) is exercised by this property's oracle on the
    implementation (every loaded font is saved and re-read), not proved here. *)
Theorem C14_result_saveable : forall q u l,
  load_model q u = Ok l -> FontInfo.fi_save (project (l_info l)) = Ok (project (l_info l)).
Proof.
  intros q u l H. destruct (C14_result_v3_valid q u l H) as [_ S].
  apply FontInfoP.save_iff_spec in S. destruct S as [j Hj].
  destruct (FontInfoP.save_only_valid _ _ Hj) as [E _]. subst j. exact Hj.
Qed.

(** the loaded info has the format-3 types, the structured format-3-only attributes are absent,
    and on such an info the projection's unsigned fields lose nothing *)
Theorem C14_projection_exact : forall q u l,
  load_model q u = Ok l ->
  typed ufo3_schema (l_info l) /\
  (forall k, In k ["guidelines"; "openTypeGaspRangeRecords"; "openTypeNameRecords";
                   "woffMetadataCopyright"; "woffMetadataCredits"; "woffMetadataDescription";
                   "woffMetadataExtensions"; "woffMetadataLicense"; "woffMetadataLicensee";
                   "woffMetadataTrademark"; "woffMetadataUniqueID"; "woffMetadataVendor"] ->
     get (l_info l) k = None) /\
  (forall s, get (l_info l) "openTypeOS2Selection" = Some (VInts s) ->
     FontInfo.i_selection (project (l_info l)) = Some (map Z.to_N s) /\
     map Z.of_N (map Z.to_N s) = s) /\
  (forall v, get (l_info l) "openTypeOS2FamilyClass" = Some v ->
     exists a b, v = VInts [a; b] /\
                 FontInfo.i_class (project (l_info l)) = Some (Z.to_N a, Z.to_N b) /\
                 Z.of_N (Z.to_N a) = a /\ Z.of_N (Z.to_N b) = b).
Proof.
  intros q u l H. pose proof (load_typed q u l H) as T. split; [exact T|]. split.
  - intros k Hk. apply (load_complex_absent q u l k H). exact Hk.
  - destruct (project_exact (l_info l) T) as (P1 & P2 & _). split; [exact P1|exact P2].
Qed.

(** no panic site is reachable while a legacy font info is loaded (the [unwrap] of the
    unitsPerEm conversion, the slices of the date rule) *)
Theorem C14_load_total : forall q u s, load_model q u <> Panic s.
Proof. exact load_no_panic. Qed.

Example C14_valid_witness :
  load_model req_all {| u_version := 2;
                u_fontinfo := Some [("openTypeHeadCreated", PStr "2020/02/30 23:59:59");
                                    ("postscriptBlueValues", PArr [PInt 1; PReal (Fin 5 (-1))]);
                                    ("openTypeOS2Selection", PArr [PInt 7; PInt 1])];
                u_lib := None; u_features := None |}
  = Ok {| l_version := 3;
          l_info := [("openTypeHeadCreated", VStr "2020/02/30 23:59:59");
                     ("openTypeOS2Selection", VInts [7; 1]);
                     ("postscriptBlueValues", VNums [Fin 1 0; Fin 5 (-1)])];
          l_features := ""; l_lib := [] |} /\
  load_model req_all {| u_version := 2;
                u_fontinfo := Some [("openTypeHeadCreated", PStr "2020/00/10 00:00:00")];
                u_lib := None; u_features := None |} = Err (EFontInfoUpconv KBadDate) /\
  load_model req_all {| u_version := 2;
                u_fontinfo := Some [("postscriptBlueValues", PArr [PInt 1])];
                u_lib := None; u_features := None |}
  = Err (EFontInfoUpconv (KListPairs "postscriptBlueValues")).
Proof. repeat split; vm_compute; reflexivity. Qed.

(** ** PostScript hint data and feature text of the format-1 lib *)
Theorem C14_robofab_moved :
  (* the statement-by-statement assignments are the specification's hint table *)
  (forall h i, apply_hints h i = apply_hint_table spec_hint_table h i) /\
  (* each hint value lands under its format-3 attribute, blue zones flattened *)
  (forall h i k hk s, In (k, hk, s) spec_hint_table ->
     get (apply_hints h i) k =
       match s, hint_value h hk s with HFlatten, None => get i k | _, o => o end) /\
  (* no other attribute changes *)
  (forall h i k, ~ In k (map (fun r => fst (fst r)) spec_hint_table) ->
     get (apply_hints h i) k = get i k) /\
  (* the four lib keys are removed and exactly they *)
  (forall (l : pdict) k v, In (k, v) (remove_keys robofab_lib_keys l) <->
     In (k, v) l /\ ~ In k robofab_lib_keys).
Proof.
  split; [exact apply_hints_is_table|]. split; [exact apply_hints_row|].
  split; [exact apply_hints_frame|]. intros. apply remove_keys_In.
Qed.

(** the conversion does not depend on what the caller requested: success, error, and the whole
    resulting font info -- converted attributes and the hint data read from lib.plist -- are
    the same for every [DataRequest]; in particular a load that does not request the lib still
    moves the PostScript hint data into the font info *)
Theorem C14_info_independent_of_request : forall q q' u,
  res_info (load_model q u) = res_info (load_model q' u).
Proof. exact info_independent_of_request. Qed.

(** and so does the feature text kept in the format-1 lib (also when features.fea itself was
    not requested) *)
Theorem C14_features_independent_of_request : forall q u l ld,
  load_model q u = Ok l -> u_version u = 1 -> u_lib u = Some ld ->
  forall d, decode_libdata ld = Some d -> feature_text d <> "" -> l_features l = feature_text d.
Proof. exact robofab_features_independent_of_request. Qed.

(** the font's lib: empty when not requested, otherwise entries of the file, never
    public.objectLibs *)
Theorem C14_lib_of_request : forall q u l,
  load_model q u = Ok l ->
  (q_lib q = false -> l_lib l = []) /\
  (forall k v, In (k, v) (l_lib l) -> k <> PUBLIC_OBJECT_LIBS_KEY /\
     exists d, u_lib u = Some d /\ In (k, v) d).
Proof. exact lib_of_request. Qed.

Example C14_request_witness :
  let u := {| u_version := 1; u_fontinfo := None;
              u_lib := Some [("org.robofab.postScriptHintData", PDict [("blueFuzz", PInt 2)]);
                             ("org.robofab.opentype.classes", PStr "@a=[a];");
                             ("public.objectLibs", PDict []); ("keep", PInt 1)];
              u_features := Some "on disk" |} in
  load_model {| q_lib := false; q_features := false |} u
  = Ok {| l_version := 3; l_info := [("postscriptBlueFuzz", VNum (Fin 1 1))];
          l_features := "@a=[a];"; l_lib := [] |} /\
  load_model req_all u
  = Ok {| l_version := 3; l_info := [("postscriptBlueFuzz", VNum (Fin 1 1))];
          l_features := "@a=[a];"; l_lib := [("keep", PInt 1)] |}.
Proof. split; vm_compute; reflexivity. Qed.

Example C14_robofab_witness :
  let lib := [("org.robofab.postScriptHintData",
               PDict [("blueValues", PArr [PArr [PInt (-10); PInt 0]; PArr [PInt 500; PReal (Fin 1021 (-1))]]);
                      ("hStems", PArr [PInt 80]); ("forceBold", PBool true)]);
              ("org.robofab.opentype.classes", PStr "@a=[a];");
              ("org.robofab.opentype.features", PDict [("liga", PStr "L"); ("kern", PStr "K")]);
              ("com.example", PInt 1)] in
  load_model req_all {| u_version := 1; u_fontinfo := Some [("fontStyle", PInt 33)];
                u_lib := Some lib; u_features := None |}
  = Ok {| l_version := 3;
          l_info := [("postscriptStemSnapH", VNums [Fin 5 4]); ("postscriptForceBold", VBool true);
                     ("postscriptBlueValues", VNums [Fin (-5) 1; Fin 0 0; Fin 125 2; Fin 1021 (-1)]);
                     ("styleMapStyleName", VStr "bold italic")];
          l_features := "@a=[a];" ++ String (Ascii.ascii_of_N 10) "KL";
          l_lib := [("com.example", PInt 1)] |}.
Proof. vm_compute. reflexivity. Qed.
