(** C08 — save validates before it destroys; saving in place keeps lazy data.
    Statements only; proofs live in Proofs/SaveP.v.  [save] is the model of Font::save_impl
    (Model/Save.v), [sfs] the abstract file system (Model/Fs.v). *)
From stdpp Require Import gmap strings.
From Norad.Model Require Import Fs Save.
From Norad.Proofs Require Import FsP SaveP.
Open Scope string_scope.
Open Scope list_scope.

(** If the font itself is invalid in one of the five ways the property names (format version
    below 3, a user-supplied public.objectLibs key, invalid groups, invalid font info, a store
    entry in the error state), the save fails with the corresponding error and the file system
    is returned unchanged — for EVERY target path and EVERY prior file system. *)
Theorem C08_refused_untouched :
  ∀ (f : font_abs) (k : refusal) (t : path) (m : sfs),
    refusal_kind f = Some k → save f t m = (Failed (err_of k), m).
Proof. exact refused_untouched. Qed.

(** The same for a store entry that has not been read yet and turns out to be unreadable (or,
    for an image, not a PNG) when save forces it. *)
Theorem C08_refused_untouched_unreadable :
  ∀ (f : font_abs) (t : path) (m : sfs),
    refusal_kind f = None → force_stores m f = None → save f t m = (Failed InvalidStoreEntry, m).
Proof. exact refused_untouched_unreadable. Qed.

(** Conversely: a save that changed anything at all had passed all five checks, i.e. every
    validator and the forcing of the stores precede the first mutation. *)
Theorem C08_checks_before_mutation :
  ∀ (f : font_abs) (t : path) (m : sfs) (o : outcome) (m' : sfs),
    save f t m = (o, m') → m' ≠ m → refusal_kind f = None ∧ is_Some (force_stores m f).
Proof. exact checks_before_mutation. Qed.

(** Saving over the directory the stores were opened on: whatever else was changed in the font,
    and whichever entries were or were not accessed before, every data and image file of the
    source is still there with the same content after a successful save. *)
Theorem C08_in_place :
  ∀ (f : font_abs) (t : path) (m m' : sfs) (sd si : store),
    open_store false DATA_DIR m t = Some sd → open_store true IMAGES_DIR m t = Some si →
    store_evolved false DATA_DIR m sd (fa_data f) → store_evolved true IMAGES_DIR m si (fa_images f) →
    save f t m = (Saved, m') →
    ∀ p c, under (t ++ [DATA_DIR]) p ∨ under (t ++ [IMAGES_DIR]) p →
           m !! p = Some (File c) → m' !! p = Some (File c).
Proof. exact in_place. Qed.

(** The same for ANY store history (entries accessed, inserted, removed - also the removal of an
    entry in error after a refused save -, earlier saves refused or successful): a cell of a store
    rooted at the target that is not loaded yet, or holds what the file system holds, keeps its
    file with that content through a successful save.  Keys are unique, as in a map. *)
Theorem C08_in_place_tracked :
  ∀ (f : font_abs) (t : path) (m m' : sfs) (image : bool) (k : list string) (cl : cell) (c : content),
    let s := if image then fa_images f else fa_data f in
    let dir := if image then IMAGES_DIR else DATA_DIR in
    st_root s = t → NoDup (st_cells s).*1 → (k, cl) ∈ st_cells s →
    (cl = NotLoaded ∨ cl = Loaded c) → m !! (t ++ dir :: k) = Some (File c) →
    save f t m = (Saved, m') → m' !! (t ++ dir :: k) = Some (File c).
Proof. exact in_place_tracked. Qed.
(** what a save - refused or not - leaves in a cell that was not loaded: an error, or the content
    the file system holds (so the hypothesis above is kept along a history of saves in place,
    [font_after] being the font the next save starts from) *)
Theorem C08_forced_cell :
  ∀ (png : bool) (dir : string) (m : sfs) (root : path) (k : list string),
    force_cell png dir m root (k, NotLoaded) = (k, Error) ∨
    ∃ c, force_cell png dir m root (k, NotLoaded) = (k, Loaded c) ∧ m !! (root ++ dir :: k) = Some (File c).
Proof.
  intros png dir m root k. unfold force_cell, read. cbn [fst snd].
  destruct (m !! (root ++ dir :: k)) as [[c|]|]; auto.
  destruct (negb png || c_png c); eauto.
Qed.
Theorem C08_font_after_stores :
  ∀ (f : font_abs) (m : sfs),
    refusal_kind f = None ∨ refusal_kind f = Some RStore →
    fa_data (font_after f m) = force_store false DATA_DIR m (fa_data f) ∧
    fa_images (font_after f m) = force_store true IMAGES_DIR m (fa_images f).
Proof.
  intros f m H. unfold font_after, refusal_kind in *.
  destruct (refuses RVersion f); [destruct H; discriminate|].
  destruct (refuses RObjLibs f); [destruct H; discriminate|].
  destruct (refuses RGroups f); [destruct H; discriminate|].
  destruct (refuses RInfo f); [destruct H; discriminate|]. done.
Qed.

(** Non-vacuity. *)
Definition ex_c (n : N) : content := Content n false.
Definition ex_layer : layer_abs :=
  Layer "public.default" [Normal "glyphs"] (ex_c 4) None [Glif [Normal "a.glif"] (Some (ex_c 5))].
Definition ex_font (ver : N) (objlibs groups_ok info_ok : bool) (d i : store) : font_abs :=
  Font ver objlibs groups_ok info_ok (ex_c 1) (Some (ex_c 2)) None None None None (ex_c 3) [ex_layer] d i.
Definition ex_nostore : store := Store [] [].

(** one font per refusal kind *)
Example C08_five_kinds :
  refusal_kind (ex_font 2 false true true ex_nostore ex_nostore) = Some RVersion ∧
  refusal_kind (ex_font 3 true true true ex_nostore ex_nostore) = Some RObjLibs ∧
  refusal_kind (ex_font 3 false false true ex_nostore ex_nostore) = Some RGroups ∧
  refusal_kind (ex_font 3 false true false ex_nostore ex_nostore) = Some RInfo ∧
  refusal_kind (ex_font 3 false true true (Store [] [(["a"], Error)]) ex_nostore) = Some RStore.
Proof. repeat split; reflexivity. Qed.

(** a source with two data files (one nested) and a PNG image, a stale file, and a font whose
    stores were opened on it; one data entry was accessed, the others not; the save succeeds,
    the stale file is gone, the three store files are preserved *)
Definition ex_src : sfs :=
  list_to_map [([], Dir); (["t"], Dir); (["t"; "data"], Dir); (["t"; "data"; "a.txt"], File (ex_c 7));
               (["t"; "data"; "d"], Dir); (["t"; "data"; "d"; "b.bin"], File (ex_c 8));
               (["t"; "images"], Dir); (["t"; "images"; "i.png"], File (Content 9 true));
               (["t"; "stale"], File (ex_c 10))].
Example C08_in_place_example :
  ∃ sd si m',
    open_store false DATA_DIR ex_src ["t"] = Some sd ∧ open_store true IMAGES_DIR ex_src ["t"] = Some si ∧
    length (st_cells sd) = 2 ∧ length (st_cells si) = 1 ∧
    let f := ex_font 3 false true true
               (Store ["t"] (map (λ kc, if bool_decide (kc.1 = ["a.txt"])
                                        then force_cell false DATA_DIR ex_src ["t"] kc else kc)
                                 (st_cells sd))) si in
    has_error_cell (fa_data f) = false ∧ store_ok (fa_data f) = false ∧
    store_evolved false DATA_DIR ex_src sd (fa_data f) ∧
    save f ["t"] ex_src = (Saved, m') ∧ m' !! ["t"; "stale"] = None ∧
    m' !! ["t"; "data"; "d"; "b.bin"] = Some (File (ex_c 8)).
Proof.
  eexists _, _, _. split; [vm_compute; reflexivity|]. split; [vm_compute; reflexivity|].
  split; [reflexivity|]. split; [reflexivity|].
  split; [vm_compute; reflexivity|]. split; [vm_compute; reflexivity|]. split.
  - split; [reflexivity|]. cbn [fa_data ex_font st_cells].
    apply Forall2_fmap_r, Forall_Forall2_diag, Forall_forall. intros kc _.
    unfold compose. cbv beta. match goal with |- context [if ?b then _ else _] => destruct b end; [right; reflexivity|left; reflexivity].
  - split; [vm_compute; reflexivity|]. split; vm_compute; reflexivity.
Qed.

(** a refused save, the repair, the second save: the source has a data file, a PNG and an image
    without the signature; nothing was read yet.  The first save in place is refused and changes
    nothing; after removing the entry in error from the font the save succeeds, the bad file and
    the stale file are gone, the data file and the good image are still there. *)
Definition ex_src2 : sfs := <[["t"; "images"; "bad.png"] := File (ex_c 11)]> ex_src.
Definition ex_f1 : font_abs :=
  ex_font 3 false true true (Store ["t"] [(["a.txt"], NotLoaded); (["d"; "b.bin"], NotLoaded)])
          (Store ["t"] [(["bad.png"], NotLoaded); (["i.png"], NotLoaded)]).
Definition drop_errors (s : store) : store :=
  Store (st_root s) (List.filter (λ kc, match kc.2 with Error => false | _ => true end) (st_cells s)).
Example C08_refuse_repair_save :
  save ex_f1 ["t"] ex_src2 = (Failed InvalidStoreEntry, ex_src2) ∧
  let f2 := font_after ex_f1 ex_src2 in
  let f3 := set_stores f2 (fa_data f2) (drop_errors (fa_images f2)) in
  st_cells (fa_images f3) = [(["i.png"], Loaded (Content 9 true))] ∧
  ∃ m', save f3 ["t"] ex_src2 = (Saved, m') ∧
        m' !! ["t"; "images"; "bad.png"] = None ∧ m' !! ["t"; "stale"] = None ∧
        m' !! ["t"; "data"; "d"; "b.bin"] = Some (File (ex_c 8)) ∧
        m' !! ["t"; "images"; "i.png"] = Some (File (Content 9 true)).
Proof.
  split; [vm_compute; reflexivity|]. split; [vm_compute; reflexivity|].
  eexists. split; [vm_compute; reflexivity|]. repeat split; vm_compute; reflexivity.
Qed.
