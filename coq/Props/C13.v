(** C13 — font info is accepted exactly when it satisfies the specification's rules.
    Statements only; proofs live in Proofs/FontInfoP.v.  Model and specification:
    Model/FontInfo.v ([fi_validate], [fi_save], [fi_load] model the code as it is after the
    repairs f495d82 and c5d40c1; [fi_spec] is written from the property text). *)
Require Import Norad.Model.FontInfo Norad.Proofs.FontInfoP.
Open Scope N_scope.

(** [FontInfo::validate] accepts a font info iff it satisfies the specification. For ALL infos;
    no known class is excepted. *)
Theorem C13_validate_iff_spec : forall i, fi_validate i = Ok tt <-> fi_spec i.
Proof. exact validate_iff_spec. Qed.

(** no panic site of validate() (slices of the date, the [unwrap] of the gasp loop) is reachable *)
Theorem C13_validate_total : forall i k, fi_validate i <> Panic k.
Proof. exact validate_no_panic. Qed.

(** the error reported is that of the first violated rule in source order *)
Theorem C13_first_error_kind : forall i e,
  fi_validate i = Err e <->
  exists pre r post, fi_rules = (pre ++ r :: post)%list /\
    Forall (fun p => rule_fn p i = Ok tt) pre /\ rule_fn r i = Err e.
Proof. exact first_error. Qed.

(** each rule returns only the error kinds [fi_rules] declares for it (the declared signatures
    are what the anchors compare with the source text) *)
Theorem C13_rule_errors_declared : forall i e,
  Forall (fun r : rule => rule_fn r i = Err e -> In (err_name e) (snd (rule_sig r))) fi_rules.
Proof. exact rule_errors_declared. Qed.

(** [Font::save] succeeds iff the info satisfies the specification, and the written file holds
    that info: a saved file never contains a violating font info. *)
Theorem C13_save_iff_spec : forall i, (exists j, fi_save i = Ok j) <-> fi_spec i.
Proof. exact save_iff_spec. Qed.
Theorem C13_save_only_valid : forall i j, fi_save i = Ok j -> j = i /\ fi_spec j.
Proof. exact save_only_valid. Qed.
(** a refused save is always refused by validate(), i.e. before the target is touched; the
    serialiser's own angle test can no longer fail after the wipe (finding F9 is gone) *)
Theorem C13_save_never_late : forall i, fi_save i <> Err SSerialize.
Proof. exact save_never_late. Qed.
Theorem C13_save_error_is_validate_error : forall i e,
  fi_save i = Err e <-> exists k, e = SInvalid k /\ fi_validate i = Err k.
Proof. exact save_error_is_validate_error. Qed.

(** [Font::load] succeeds iff the file is a well-typed font info that satisfies the
    specification; a loaded font never holds a violating font info. *)
Theorem C13_load_iff_spec : forall r,
  (exists i, fi_load r = Ok i) <-> (exists i, decode r = Some i /\ fi_spec i).
Proof. exact load_iff_spec. Qed.
Theorem C13_load_only_valid : forall r i, fi_load r = Ok i -> decode r = Some i /\ fi_spec i.
Proof. exact load_only_valid. Qed.
Theorem C13_load_total : forall r k, fi_load r <> Panic k.
Proof. exact load_no_panic. Qed.

(** what the typed deserialisers accept, declaratively: no unknown key, ten-element panose of
    u32, enumeration codes in range, non-negative numbers, gasp records of u32 and behaviour
    codes 0-3, guideline shapes, u8 bit numbers, a family class of exactly two u8;
    the Guideline deserialiser additionally applies the angle rule. *)
Theorem C13_build_typed : forall r, (exists i, build r = Some i) <-> raw_typed r.
Proof. exact build_typed. Qed.
Theorem C13_decode_spec : forall r i,
  decode r = Some i <-> (build r = Some i /\ opt_ok (Forall guide_angle_spec) (i_guides i)).
Proof. exact decode_spec. Qed.

(** the three entry points agree, and what save writes loads back as the same info *)
Theorem C13_entry_points_agree : forall i, info_wt i ->
  ((fi_validate i = Ok tt <-> exists j, fi_save i = Ok j) /\
   (fi_validate i = Ok tt <-> exists j, fi_load (encode i) = Ok j)) /\
  (forall j, fi_save i = Ok j -> fi_load (encode j) = Ok i).
Proof. exact entry_points_agree. Qed.

(** the boolean procedure the correspondence run uses as the property oracle decides [fi_spec] *)
Theorem C13_specb_decides : forall i, fi_specb i = true <-> fi_spec i.
Proof. exact specb_spec. Qed.

(** ---------- non-vacuity: both sides of every boundary ---------- *)
Example C13_ex_empty : fi_spec no_info /\ fi_validate no_info = Ok tt.
Proof. ex_solve. Qed.

Example C13_ex_date_fields :
  fi_spec (with_date "2020/12/31 23:59:59") /\ fi_spec (with_date "0000/01/01 00:00:00") /\
  ~ fi_spec (with_date "2020/13/31 23:59:59") /\ ~ fi_spec (with_date "2020/12/32 23:59:59") /\
  ~ fi_spec (with_date "2020/12/31 24:59:59") /\ ~ fi_spec (with_date "2020/12/31 23:60:59") /\
  ~ fi_spec (with_date "2020/12/31 23:59:60").
Proof. ex_solve. Qed.
(** the two inputs of finding F9 (month 00, day 00) are rejected since c5d40c1 *)
Example C13_ex_date_zero_month_day :
  ~ fi_spec (with_date "2020/00/15 00:00:00") /\ ~ fi_spec (with_date "2020/06/00 00:00:00") /\
  fi_validate (with_date "2020/00/00 00:00:00") = Err EDate.
Proof. ex_solve. Qed.
Example C13_ex_date_shape :
  ~ fi_spec (with_date "2020/12/31 23:59:5") /\ ~ fi_spec (with_date "2020/12/31 23:59:590") /\
  ~ fi_spec (with_date "2020-12-31 23:59:59") /\ ~ fi_spec (with_date "2020/12/31T23:59:59") /\
  ~ fi_spec (with_date "+020/12/31 23:59:59") /\ ~ fi_spec (with_date "2020/ 1/31 23:59:59") /\
  ~ fi_spec (with_date "") /\ fi_validate (with_date "+020/12/31 23:59:59") = Err EDate.
Proof. ex_solve. Qed.

Example C13_ex_gasp :
  fi_spec (with_gasp [1; 1; 2]) /\ fi_spec (with_gasp []) /\ fi_spec (with_gasp [7]) /\
  ~ fi_spec (with_gasp [2; 1]) /\ ~ fi_spec (with_gasp [1; 3; 2]) /\
  fi_validate (with_gasp [1; 3; 2]) = Err EGasp.
Proof. ex_solve. Qed.

Example C13_ex_identifiers :
  fi_spec (with_guides [id_guide "a"; id_guide "b"; id_guide "A"]) /\
  ~ fi_spec (with_guides [id_guide "a"; id_guide "b"; id_guide "a"]) /\
  fi_validate (with_guides [id_guide "a"; id_guide "b"; id_guide "a"]) = Err EDupId.
Proof. ex_solve. Qed.

Example C13_ex_angles :
  fi_spec (with_guides [angle_guide (FFin false 0 0); angle_guide (FFin true 0 0); angle_guide f360;
                        angle_guide f360_prev]) /\
  ~ fi_spec (with_guides [angle_guide f360_next]) /\ ~ fi_spec (with_guides [angle_guide f_neg_eps]) /\
  ~ fi_spec (with_guides [angle_guide (FNaN false)]) /\ ~ fi_spec (with_guides [angle_guide (FInf false)]) /\
  fi_validate (with_guides [angle_guide (FFin false 400 0)]) = Err EAngle /\
  fi_validate (with_guides [angle_guide (FNaN true)]) = Err EAngle.
Proof. ex_solve. Qed.
(** within one guideline the angle is tested before the identifier; across guidelines the
    earlier guideline wins *)
Example C13_ex_guideline_order :
  fi_validate (with_guides [id_guide "a"; {| g_line := LAngle (FFin false 400 0); g_id := Some (bytes_of "a") |}])
    = Err EAngle /\
  fi_validate (with_guides [id_guide "a"; id_guide "a"; angle_guide (FFin false 400 0)]) = Err EDupId.
Proof. ex_solve. Qed.

Example C13_ex_selection :
  fi_spec (with_selection [1; 2; 3; 4; 7; 8; 9]) /\ ~ fi_spec (with_selection [0]) /\
  ~ fi_spec (with_selection [1; 5]) /\ ~ fi_spec (with_selection [7; 6]) /\
  fi_validate (with_selection [7; 6]) = Err ESelection.
Proof. ex_solve. Qed.

Example C13_ex_family_class :
  fi_spec (with_class 14 15) /\ fi_spec (with_class 0 0) /\
  ~ fi_spec (with_class 15 15) /\ ~ fi_spec (with_class 14 16) /\
  fi_validate (with_class 14 16) = Err EClass.
Proof. ex_solve. Qed.

Example C13_ex_blue_lists :
  fi_spec (with_lists (zeros 14) (zeros 10) (zeros 14) (zeros 10) None None) /\
  fi_spec (with_lists (zeros 0) (zeros 0) (zeros 0) (zeros 0) None None) /\
  ~ fi_spec (with_lists (zeros 16) None None None None None) /\
  ~ fi_spec (with_lists (zeros 13) None None None None None) /\
  ~ fi_spec (with_lists None (zeros 12) None None None None) /\
  ~ fi_spec (with_lists None (zeros 9) None None None None) /\
  ~ fi_spec (with_lists None None (zeros 16) None None None) /\
  ~ fi_spec (with_lists None None (zeros 1) None None None) /\
  ~ fi_spec (with_lists None None None (zeros 12) None None) /\
  ~ fi_spec (with_lists None None None (zeros 3) None None) /\
  fi_validate (with_lists (zeros 15) None None None None None) = Err (EListLen "postscriptBlueValues" 14 15) /\
  fi_validate (with_lists None (zeros 11) None None None None) = Err (EListLen "postscriptOtherBlues" 10 11) /\
  fi_validate (with_lists None None None (zeros 9) None None) = Err (EPairs "postscriptFamilyOtherBlues").
Proof. ex_solve. Qed.
Example C13_ex_stem_lists :
  fi_spec (with_lists None None None None (zeros 12) (zeros 11)) /\
  ~ fi_spec (with_lists None None None None (zeros 13) None) /\
  ~ fi_spec (with_lists None None None None None (zeros 13)) /\
  fi_validate (with_lists None None None None None (zeros 13)) = Err (EListLen "postscriptStemSnapV" 12 13).
Proof. ex_solve. Qed.

Example C13_ex_woff :
  fi_spec (with_woff (Some [[(1, 1); (2, 3)]; [(1, 1)]]) (Some 1) (Some 1) (Some 2) (Some 1))%nat /\
  ~ fi_spec (with_woff (Some []) None None None None) /\
  ~ fi_spec (with_woff (Some [[(1, 1)]; []]) None None None None)%nat /\
  ~ fi_spec (with_woff (Some [[(1, 1); (0, 1)]]) None None None None)%nat /\
  ~ fi_spec (with_woff (Some [[(1, 0)]]) None None None None)%nat /\
  ~ fi_spec (with_woff None (Some 0) None None None)%nat /\
  ~ fi_spec (with_woff None None (Some 0) None None)%nat /\
  ~ fi_spec (with_woff None None None (Some 0) None)%nat /\
  ~ fi_spec (with_woff None None None None (Some 0))%nat /\
  fi_validate (with_woff (Some [[(1, 1)]; []]) (Some 0) None None None)%nat = Err (EWoff W_EXT_ITEMS).
Proof. ex_solve. Qed.

(** the order of the rules: with two rules violated, the earlier one is reported *)
Example C13_ex_rule_order :
  fi_validate {| i_date := Some (bytes_of "x"); i_gasp := Some [2; 1]; i_guides := None; i_selection := Some [0];
                 i_class := Some (99, 99); i_blue := Some [0%Z]; i_oblue := None; i_fblue := None;
                 i_foblue := None; i_stemh := None; i_stemv := None; i_wext := Some []; i_wcredits := None;
                 i_wcopyright := None; i_wdescr := None; i_wtrade := None |} = Err EDate /\
  fi_validate {| i_date := None; i_gasp := None; i_guides := None; i_selection := Some [0];
                 i_class := Some (99, 99); i_blue := Some [0%Z]; i_oblue := None; i_fblue := None;
                 i_foblue := None; i_stemh := None; i_stemv := None; i_wext := Some []; i_wcredits := None;
                 i_wcopyright := None; i_wdescr := None; i_wtrade := None |} = Err ESelection.
Proof. ex_solve. Qed.

(** load: the typed deserialisers and the angle rule act before validate() *)
Example C13_ex_load :
  fi_load (encode (with_class 14 15)) = Ok (with_class 14 15) /\
  fi_load (encode (with_class 14 16)) = Err (LInvalid EClass) /\
  fi_load (encode (with_guides [angle_guide (FFin false 400 0)])) = Err LParse /\
  info_wt (with_class 14 15).
Proof. exact ex_load. Qed.
