(** C05 — files are UFO 3 as an independent implementation reads and writes it.
    Statements only; proofs live in Proofs/FontRTP.v and Proofs/FontToyP.v.

    Every theorem is for ALL signatures [S] (part types, codecs, dictionaries, validators)
    satisfying the laws [sig_ok S] — the hypotheses to be discharged by the part-level
    theorems (C02/C12 for [P_glif], C13/C14 for [P_info], C15 for groups, the plist / XML layer
    hypotheses for the plist parts) — for ALL fonts, write options and conforming-writer
    choices.  [toy_ok] shows the laws are satisfiable. *)
Require Import Norad.Model.GlifSpec Norad.Model.GlifEncode Norad.Proofs.GlifEncodeP Norad.Proofs.GlifRoundtripP Norad.Proofs.GlifFullP.
Require Import Norad.Model.Base Norad.Model.FontRT Norad.Model.FontToy Norad.Model.FontReal Norad.Model.FontRealFiles
               Norad.Proofs.FontRTP Norad.Proofs.FontToyP Norad.Proofs.FontRealP Norad.Proofs.FontRealFilesP.
Open Scope N_scope.

(** The file, directory and key names norad uses are the names of the specification. *)
Theorem C05_names_are_spec : norad_names = spec_names.
Proof. reflexivity. Qed.

(** norad's writer IS the specification writer making particular (legal) choices: optional
    files omitted when empty, default layer listed first, CR LF of the feature text written LF. *)
Theorem C05_norad_writes_spec : forall (S : sig), sig_ok S -> forall o (f : font S),
  font_valid S f ->
  exists t, save S o f = Ok t /\ spec_write S norad_choices o f = Some t.
Proof.
  intros S OK o f Hv. destruct (save_load_roundtrip S OK o f Hv) as (t & H1 & H2 & _). eauto.
Qed.

(** The specification reader inverts every conforming writer ... *)
Theorem C05_spec_read_spec_write : forall (S : sig), sig_ok S -> forall c o (f : font S),
  font_valid S f ->
  exists t, spec_write S c o f = Some t /\ exists f', spec_read S t = Some f' /\ font_equiv S f f'.
Proof. exact spec_read_spec_write. Qed.

(** ... hence an independent reader finds exactly the values of the font in what norad saved. *)
Theorem C05_independent_reader_finds_saved_values : forall (S : sig), sig_ok S -> forall o (f : font S),
  font_valid S f ->
  exists t, save S o f = Ok t /\ exists f', spec_read S t = Some f' /\ font_equiv S f f'.
Proof.
  intros S OK o f Hv. destruct (spec_read_spec_write S OK norad_choices o f Hv) as (t & Hw & H).
  exists t. split; [apply save_is_spec_write; assumption|exact H].
Qed.

(** Conversely norad loads what ANY conforming writer produced (optional files present though
    empty or absent, default layer at any position, line endings kept or normalised) into a
    font holding the written values. *)
Theorem C05_norad_reads_spec : forall (S : sig), sig_ok S -> forall c o (f : font S),
  font_valid S f ->
  exists t, spec_write S c o f = Some t /\ exists f', load S t = Ok f' /\ font_equiv S f f'.
Proof. exact load_spec_write. Qed.

(** Layer order: wherever the default layer stands in layercontents.plist, it is loaded first and
    the other layers follow in their file order. *)
Theorem C05_layer_order : forall (S : sig), sig_ok S -> forall c o (f : font S),
  font_valid S f ->
  exists t f', spec_write S c o f = Some t /\ load S t = Ok f' /\
               map l_name (f_layers S f') = map l_name (f_layers S f) /\
               map l_dir (f_layers S f') = map l_dir (f_layers S f) /\
               default_first S (f_layers S f').
Proof. exact layer_order. Qed.

(** On every format-3 tree, however produced, norad's reader and the independent reader return
    the same font (given one default layer and distinct guideline identifiers). *)
Theorem C05_readers_agree : forall (S : sig), sig_ok S -> forall (t : tree S) (f : font S) mc m,
  load S t = Ok f ->
  t_meta S t = Some mc -> dec (P_meta S) mc = Some m -> m_version m = 3 ->
  NoDup (some_ids (map g_id (guides_of S (f_info S f)))) ->
  default_first S (f_layers S f) ->
  spec_read S t = Some f.
Proof. exact readers_agree. Qed.

(** Non-vacuity: the laws have a model; the example font (every gate exercised) is valid; a writer
    that writes every optional file and lists the default layer last is read back by norad with
    the default layer first. *)
Example C05_laws_satisfiable : sig_ok toy_sig.
Proof. exact toy_ok. Qed.
Example C05_valid_font : font_valid toy_sig toy_font.
Proof. exact toy_font_valid. Qed.
Example C05_default_layer_last_is_loaded_first :
  exists t f', spec_write toy_sig all_choices 0 toy_font = Some t /\
               map fst (match dec (P_lc toy_sig) (match t_lcontents toy_sig t with Some c => c | None => CPairs [] end)
                        with Some l => l | None => [] end) = [s "bg"; s "foreground"] /\
               load toy_sig t = Ok f' /\
               map l_name (f_layers toy_sig f') = [s "foreground"; s "bg"].
Proof. eexists. eexists. vm_compute. repeat split; reflexivity. Qed.

(** ---------- with the REAL part models (glif codec, font info, groups / kerning maps and validator) plugged in (Model/FontReal.v) ----------
    Remaining hypotheses: [codecs_ok K] (the laws of every part other than the glif codec — see
    Props/C01.v, C01_roundtrip_real, for which theorem discharges which), [L1_glif] (the library
    hypotheses of C02), and in [font_valid] the glyph domain [wf_glyph] (libs included, outside F3, canonical form) and the
    font-info domain [wf_sinfo]. *)
Theorem C05_norad_writes_spec_real : forall pf ff ff3 fi fh (K : codecs),
  L1_glif pf ff ff3 fi fh -> codecs_ok K ->
  forall o (f : font (real_sig pf ff ff3 fi fh K)),
  font_valid (real_sig pf ff ff3 fi fh K) f ->
  exists t, save (real_sig pf ff ff3 fi fh K) o f = Ok t /\
            spec_write (real_sig pf ff ff3 fi fh K) norad_choices o f = Some t.
Proof.
  intros pf ff ff3 fi fh K L HB o f Hv.
  destruct (roundtrip_real pf ff ff3 fi fh K L HB o f Hv) as (t & H1 & H2 & _). eauto.
Qed.
Theorem C05_norad_reads_spec_real : forall pf ff ff3 fi fh (K : codecs),
  L1_glif pf ff ff3 fi fh -> codecs_ok K ->
  forall c o (f : font (real_sig pf ff ff3 fi fh K)),
  font_valid (real_sig pf ff ff3 fi fh K) f ->
  exists t, spec_write (real_sig pf ff ff3 fi fh K) c o f = Some t /\
            exists f', load (real_sig pf ff ff3 fi fh K) t = Ok f' /\ font_equiv (real_sig pf ff ff3 fi fh K) f f'.
Proof. exact reads_spec_real. Qed.
Theorem C05_spec_read_spec_write_real : forall pf ff ff3 fi fh (K : codecs),
  L1_glif pf ff ff3 fi fh -> codecs_ok K ->
  forall c o (f : font (real_sig pf ff ff3 fi fh K)),
  font_valid (real_sig pf ff ff3 fi fh K) f ->
  exists t, spec_write (real_sig pf ff ff3 fi fh K) c o f = Some t /\
            exists f', spec_read (real_sig pf ff ff3 fi fh K) t = Some f' /\ font_equiv (real_sig pf ff ff3 fi fh K) f f'.
Proof. exact spec_reader_real. Qed.

(** ---------- every file through the plist tree ([all_files], Model/FontRealFiles.v) ----------
    No file codec is abstract any more: what norad writes is what the specification's writer with
    norad's choices writes, and norad reads (and so does the specification's reader) every
    rendering the specification allows, file by file down to the XML tree of each plist.
    Remaining hypotheses: [L1_glif] (std text facts), f64::from_bits(v).to_bits() == v, and the
    domain [font_valid] (Props/C01.v, C01_roundtrip_real_all_files, spells it out). *)
Theorem C05_norad_writes_spec_real_all_files : forall pf ff ff3 fi fh to_bits of_bits lw,
  L1_glif pf ff ff3 fi fh -> (forall v, to_bits (of_bits v) = v) ->
  forall o (f : font (real_sig pf ff ff3 fi fh (all_files pf ff ff3 fi to_bits of_bits lw))),
  font_valid (real_sig pf ff ff3 fi fh (all_files pf ff ff3 fi to_bits of_bits lw)) f ->
  exists t, save (real_sig pf ff ff3 fi fh (all_files pf ff ff3 fi to_bits of_bits lw)) o f = Ok t /\
            spec_write (real_sig pf ff ff3 fi fh (all_files pf ff ff3 fi to_bits of_bits lw)) norad_choices o f = Some t.
Proof. exact writes_spec_all_files. Qed.
Theorem C05_norad_reads_spec_real_all_files : forall pf ff ff3 fi fh to_bits of_bits lw,
  L1_glif pf ff ff3 fi fh -> (forall v, to_bits (of_bits v) = v) ->
  forall c o (f : font (real_sig pf ff ff3 fi fh (all_files pf ff ff3 fi to_bits of_bits lw))),
  font_valid (real_sig pf ff ff3 fi fh (all_files pf ff ff3 fi to_bits of_bits lw)) f ->
  exists t, spec_write (real_sig pf ff ff3 fi fh (all_files pf ff ff3 fi to_bits of_bits lw)) c o f = Some t /\
            exists f', load (real_sig pf ff ff3 fi fh (all_files pf ff ff3 fi to_bits of_bits lw)) t = Ok f' /\
                       font_equiv (real_sig pf ff ff3 fi fh (all_files pf ff ff3 fi to_bits of_bits lw)) f f'.
Proof. exact reads_spec_all_files. Qed.
Theorem C05_spec_read_spec_write_real_all_files : forall pf ff ff3 fi fh to_bits of_bits lw,
  L1_glif pf ff ff3 fi fh -> (forall v, to_bits (of_bits v) = v) ->
  forall c o (f : font (real_sig pf ff ff3 fi fh (all_files pf ff ff3 fi to_bits of_bits lw))),
  font_valid (real_sig pf ff ff3 fi fh (all_files pf ff ff3 fi to_bits of_bits lw)) f ->
  exists t, spec_write (real_sig pf ff ff3 fi fh (all_files pf ff ff3 fi to_bits of_bits lw)) c o f = Some t /\
            exists f', spec_read (real_sig pf ff ff3 fi fh (all_files pf ff ff3 fi to_bits of_bits lw)) t = Some f' /\
                       font_equiv (real_sig pf ff ff3 fi fh (all_files pf ff ff3 fi to_bits of_bits lw)) f f'.
Proof. exact spec_reader_all_files. Qed.
