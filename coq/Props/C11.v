(** C11 — a contour is accepted exactly when its point sequence is legal.
    Statements only; proofs live in Proofs/ContourP.v. *)
Require Import Norad.Model.Base Norad.Model.Contour Norad.Proofs.ContourP.
Open Scope N_scope.

(** The builder (add_point* ; end_path) accepts a sequence iff it is legal under the
    specification predicate [legal] (positional, cyclic, no counter). For ALL sequences. *)
Theorem C11_accepts_iff_legal : forall pts, (exists r, build pts = inr r) <-> legal pts.
Proof. exact accepts_iff_legal. Qed.

(** Accepted contours come back with their points in order and unchanged. *)
Theorem C11_points_unchanged : forall pts r, build pts = inr r -> r = pts.
Proof. exact points_unchanged. Qed.

(** Empty contours are accepted and dropped; non-empty accepted ones are kept as they are. *)
Theorem C11_empty_dropped : build [] = inr [] /\ kept [] = None.
Proof. split; reflexivity. Qed.
Theorem C11_nonempty_kept : forall pts, pts <> [] -> kept pts = Some pts.
Proof. intros [|p l] H; [congruence|reflexivity]. Qed.

(** The executable predicate used by the correspondence run decides [legal]. *)
Theorem C11_legalb_decides : forall pts, legalb pts = true <-> legal pts.
Proof. exact legalb_spec. Qed.

(** The [unreachable!()] arm of end_path is unreachable (also a C03 site). *)
Theorem C11_no_unreachable : forall pts, build pts <> inl UnreachableMove.
Proof. exact build_no_unreachable. Qed.

(** Non-vacuity: a closed contour whose off-curve run wraps around the end is legal/accepted,
    one more off-curve makes it illegal/rejected. *)
Example C11_wraparound_legal :
  legal [(Off,false);(Curve,true);(Line,false);(Off,false)] /\
  ~ legal [(Off,false);(Off,false);(Curve,true);(Line,false);(Off,false)].
Proof.
  split.
  - apply legalb_spec. vm_compute. reflexivity.
  - intros H. apply legalb_spec in H. vm_compute in H. discriminate.
Qed.
