(** C16 — data and image stores keep their invariants and their bytes.
    Statements only; proofs live in Proofs/StoreP.v, StoreInvP.v, StoreSaveP.v.
    Model: Model/Store.v (the code after the repairs c2a517e and 2c07570). *)
Require Import Norad.Model.Base Norad.Model.Store.
Require Import Norad.Proofs.StoreP Norad.Proofs.StoreInvP Norad.Proofs.StoreSaveP.
Open Scope N_scope.

(** ** The invariant, for ALL histories

    [C16_inv k its] (Model/Store.v): keys distinct as paths; every key non-empty, relative, made of
    plain names and kept in plain text; no key a proper path prefix of another (either direction);
    image keys have one component and loaded image bytes start with the PNG signature. *)

Theorem C16_inv_empty : forall k, C16_inv k [].
Proof. exact inv_empty. Qed.

(** a store listed from any well-formed data/ or images/ tree (or from an absent directory) *)
Theorem C16_inv_loaded : forall k d its,
  (forall x, d = Some x -> wf_disk x) -> load_store k d = Ok its -> C16_inv k its.
Proof. exact inv_loaded. Qed.

(** every operation keeps it: insert / remove / get / clear / iter / contains_key with arbitrary
    keys and contents, each get/iter against an arbitrary state of the disk *)
Theorem C16_inv_step : forall k its o, C16_inv k its -> C16_inv k (step k its o).
Proof. exact inv_step. Qed.

Theorem C16_inv_history : forall k ops its, C16_inv k its -> C16_inv k (run k ops its).
Proof. exact inv_run. Qed.

Theorem C16_inv_from_empty : forall k ops, C16_inv k (run k ops []).
Proof. intros k ops. apply inv_run. apply inv_empty. Qed.

Theorem C16_inv_from_loaded : forall k d its ops,
  (forall x, d = Some x -> wf_disk x) -> load_store k d = Ok its -> C16_inv k (run k ops its).
Proof. intros k d its ops Hwf Hl. apply inv_run. exact (inv_loaded k d its Hwf Hl). Qed.

(** the invariant spelled out in the words of the property *)
Theorem C16_inv_clauses : forall k its,
  C16_inv k its -> forall t c, In (t, c) its ->
  t <> [] /\ is_absolute t = false /\ all_normal (components t) = true /\ rebuild (components t) = t /\
  (forall t' c', In (t', c') its ->
     ~ proper_prefix (components t) (components t') /\ ~ proper_prefix (components t') (components t)) /\
  (k = KImage -> length (components t) = 1%nat /\ forall b, c = Loaded b -> starts_with PNG_SIG b = true).
Proof. exact inv_clauses. Qed.

(** ** Insertion *)

(** insert accepts exactly the entries the property allows: non-empty, relative, plain names,
    data: no tracked key a proper prefix of it nor it of a tracked key; image: one component and
    the PNG signature *)
Theorem C16_insert_accepts_iff_legal : forall k raw data its,
  C16_inv k its -> (fst (insert k raw data its) = None <-> insert_legal k raw data its).
Proof. exact insert_accepts_iff_legal. Qed.

Theorem C16_rejected_noop : forall k raw data its e its',
  insert k raw data its = (Some e, its') -> its' = its.
Proof. exact rejected_noop. Qed.

(** an accepted insertion holds the content under that key, touches no other key, and adds at
    most the key rebuilt from its components *)
Theorem C16_insert_stores : forall k raw data its its',
  insert k raw data its = (None, its') ->
  cell_of raw its' = Some (Loaded data) /\
  (forall raw', components raw' <> components raw -> cell_of raw' its' = cell_of raw' its) /\
  (forall t, In t (keys its') -> In t (keys its) \/ t = rebuild (components raw)).
Proof. exact insert_stores. Qed.

(** the stored key names the same path and parses back to itself: "a/", "a//b", "a/./b" are
    kept as "a", "a/b", "a/b" *)
Theorem C16_key_text_plain : forall p, p <> [] -> plain p -> components (rebuild p) = p.
Proof. exact components_rebuild. Qed.

(** ** Lazy reads *)

(** the first get of a not-yet-loaded entry returns the bytes that are on disk at that moment
    (or an error), and every later get — any spelling of the key, any later state of the disk,
    after any operations that do not insert/remove that key or clear — returns the same *)
Theorem C16_lazy_get : forall k d raw its r its1,
  cell_of raw its = Some NotLoaded -> get k d raw its = (Some r, its1) ->
  (forall b, r = GOk b -> os_read d raw = Some b) /\
  (os_read d raw = None -> r = GErr Io) /\
  (forall b, os_read d raw = Some b -> validate k raw its b = None -> r = GOk b) /\
  forall ops d' raw',
    components raw' = components raw -> Forall (fun o => touches raw o = false) ops ->
    fst (get k d' raw' (run k ops its1)) = Some r.
Proof. exact lazy_get. Qed.

(** under the invariant a readable entry asked for by its own key is handed out (an image only
    if it starts with the signature) *)
Theorem C16_lazy_get_complete : forall k d its t b,
  C16_inv k its -> In (t, NotLoaded) its -> os_read d t = Some b ->
  (k = KImage -> starts_with PNG_SIG b = true) ->
  fst (get k d t its) = Some (GOk b).
Proof. exact lazy_get_complete. Qed.

(** "the bytes on disk": a key in plain form is read from the file with exactly its names *)
Theorem C16_plain_key_reads_its_file : forall d t,
  key_ok t -> os_read d t = disk_read d (names (components t)).
Proof. exact os_read_plain. Qed.

(** what iter (and therefore save's first pass) reports for each kind of cell *)
Theorem C16_error_entries_are_found : forall k d its t,
  C16_inv k its ->
  (forall e, In (t, Error e) its -> In (t, GErr e) (fst (iter k d its))) /\
  (In (t, NotLoaded) its -> os_read d t = None -> In (t, GErr Io) (fst (iter k d its))) /\
  (forall b, In (t, Loaded b) its -> In (t, GOk b) (fst (iter k d its))) /\
  (forall b, In (t, NotLoaded) its -> os_read d t = Some b -> (k = KImage -> starts_with PNG_SIG b = true) ->
             In (t, GOk b) (fst (iter k d its))).
Proof. exact error_entries_are_found. Qed.

(** ** Save *)

(** an entry in error (unreadable, or invalid) makes save refuse, and the target is returned
    exactly as it was: no effect has happened *)
Theorem C16_save_precheck : forall dd di data imgs target,
  (exists t e, In (t, GErr e) (fst (iter KData dd data))) \/
  (exists t e, In (t, GErr e) (fst (iter KImage di imgs))) ->
  exists t e data' imgs', save dd di data imgs target = (SaveInvalidEntry t e, target, data', imgs').
Proof. exact save_precheck. Qed.

(** otherwise save succeeds — no file/directory clash, no panic at the [expect]s — and the
    target holds every entry verbatim under data/ resp. images/ and no other file *)
Theorem C16_save_verbatim : forall dd di data imgs target,
  C16_inv KData data -> C16_inv KImage imgs ->
  (forall t e, ~ In (t, GErr e) (fst (iter KData dd data))) ->
  (forall t e, ~ In (t, GErr e) (fst (iter KImage di imgs))) ->
  exists fs,
    save dd di data imgs target = (SaveOk, Some fs, snd (iter KData dd data), snd (iter KImage di imgs)) /\
    (forall t b, In (t, GOk b) (fst (iter KData dd data)) ->
                 fs_lookup fs (DATA_DIR :: names (components t)) = Some (AFile b)) /\
    (forall t b, In (t, GOk b) (fst (iter KImage di imgs)) ->
                 fs_lookup fs (IMAGES_DIR :: names (components t)) = Some (AFile b)) /\
    (forall q b, fs_lookup fs q = Some (AFile b) ->
       (exists t, In (t, GOk b) (fst (iter KData dd data)) /\ q = DATA_DIR :: names (components t)) \/
       (exists t, In (t, GOk b) (fst (iter KImage di imgs)) /\ q = IMAGES_DIR :: names (components t))).
Proof. exact save_verbatim. Qed.

(** ** Non-vacuity and the former defects *)

Definition kA : str := [97].                      (* "a" *)
Definition kAB : str := [97; 47; 98].             (* "a/b" *)
Definition kB : str := [98].                      (* "b" *)

(** a reachable data store with a nested key, and what it accepts next *)
Example C16_ex_store :
  run KData [Insert kAB [1]; Insert kB [2]] [] = [(kAB, Loaded [1]); (kB, Loaded [2])] /\
  insert_legal KData [97; 47; 99] [3] [(kAB, Loaded [1]); (kB, Loaded [2])] /\
  ~ insert_legal KData kA [3] [(kAB, Loaded [1]); (kB, Loaded [2])].
Proof.
  split; [reflexivity|]. split.
  - split; [discriminate|]. split; [reflexivity|]. split; [reflexivity|]. intros t c [E|[E|[]]]; inversion E; subst;
      split; intros [H1 H2]; vm_compute in H1; try discriminate; apply H2; reflexivity.
  - intros [_ [_ [_ H]]]. destruct (H kAB (Loaded [1])) as [_ X]; [left; reflexivity|]. apply X.
    split; [reflexivity | discriminate].
Qed.

(** F7 / F19 as repaired: both directions of the file-under-file rule, no "..", ".", root;
    stray separators are normalised; the image key ".." is refused *)
Example C16_former_defects_gone :
  fst (insert KData kA [2] (snd (insert KData kAB [1] []))) = Some DirUnderFile /\
  fst (insert KData kAB [2] (snd (insert KData kA [1] []))) = Some DirUnderFile /\
  fst (insert KData [46; 46; 47; 120] [1] []) = Some InvalidPathComponent /\
  fst (insert KData [46; 47; 97] [1] []) = Some InvalidPathComponent /\
  fst (insert KData [47; 97] [1] []) = Some PathIsAbsolute /\
  insert KData [97; 47] [1] [] = (None, [(kA, Loaded [1])]) /\
  insert KData [97; 47; 47; 98] [1] [] = (None, [(kAB, Loaded [1])]) /\
  fst (insert KImage [46; 46] PNG_SIG []) = Some InvalidPathComponent /\
  fst (insert KImage kAB PNG_SIG []) = Some Subdir /\
  fst (insert KImage kA [137; 80; 78; 71; 13; 10; 26] []) = Some InvalidImage /\
  insert KImage kA PNG_SIG [] = (None, [(kA, Loaded PNG_SIG)]).
Proof. vm_compute. repeat split. Qed.

(** a well-formed tree, its listing, a lazy read, a change on disk that is not seen any more *)
Definition ex_disk : disk := [([[97]; [98]], DFile [1; 2]); ([[98]], DFile [3])].
Example C16_ex_lazy :
  wf_disk ex_disk /\
  load_store KData (Some ex_disk) = Ok [(kAB, NotLoaded); (kB, NotLoaded)] /\
  get KData ex_disk kAB [(kAB, NotLoaded); (kB, NotLoaded)]
    = (Some (GOk [1; 2]), [(kAB, Loaded [1; 2]); (kB, NotLoaded)]) /\
  fst (get KData [] kAB [(kAB, Loaded [1; 2]); (kB, NotLoaded)]) = Some (GOk [1; 2]) /\
  fst (get KData [] kB [(kAB, Loaded [1; 2]); (kB, NotLoaded)]) = Some (GErr Io).
Proof.
  split; [|vm_compute; repeat split].
  unfold wf_disk, ex_disk. split; [|split].
  - simpl. repeat constructor; simpl; intuition discriminate.
  - intros p e [E|[E|[]]]; inversion E; subst; (split; [discriminate | repeat constructor]).
  - intros p e q e' [E|[E|[]]] [E'|[E'|[]]]; inversion E; inversion E'; subst; intros H;
      try reflexivity; vm_compute in H; discriminate.
Qed.

(** save: verbatim when every entry is fine, refusal without effect when one is not *)
Example C16_ex_save :
  (exists fs, save [] [] [(kAB, Loaded [1]); (kB, Loaded [2])] [(kA, Loaded PNG_SIG)] None
              = (SaveOk, Some fs, [(kAB, Loaded [1]); (kB, Loaded [2])], [(kA, Loaded PNG_SIG)]) /\
              fs_lookup fs [DATA_DIR; [97]; [98]] = Some (AFile [1]) /\
              fs_lookup fs [DATA_DIR; [98]] = Some (AFile [2]) /\
              fs_lookup fs [IMAGES_DIR; [97]] = Some (AFile PNG_SIG) /\
              fs_lookup fs [DATA_DIR; [97]] = Some ADir) /\
  fst (fst (fst (save [] [] [(kAB, Loaded [1]); (kB, NotLoaded)] [] (Some [([[120]], Some (AFile [9]))]))))
    = SaveInvalidEntry kB Io /\
  snd (fst (fst (save [] [] [(kAB, Loaded [1]); (kB, NotLoaded)] [] (Some [([[120]], Some (AFile [9]))]))))
    = Some [([[120]], Some (AFile [9]))].
Proof. split; [eexists; vm_compute; repeat split | vm_compute; split; reflexivity]. Qed.

(** ** Remaining oddities (in the model because they are in the code; none contradicts the
    property text) *)

(** asking for a not-yet-loaded entry with a trailing separator makes the operating system
    refuse the read; the error is cached, so the entry stays in error although its file is
    readable, and a later save refuses (before touching anything) *)
Example C16_get_trailing_separator_poisons :
  get KData ex_disk [98; 47] [(kB, NotLoaded)] = (Some (GErr Io), [(kB, Error Io)]) /\
  fst (get KData ex_disk kB [(kB, Error Io)]) = Some (GErr Io) /\
  fst (get KData ex_disk kB [(kB, NotLoaded)]) = Some (GOk [3]).
Proof. vm_compute. repeat split. Qed.

(** [glyph::Image::new] (the file name a glyph refers to, not a store key) still accepts ".."
    and "." *)
Example C16_glyph_image_name_dotdot :
  glyph_image_new [46; 46] = None /\ glyph_image_new [46] = None /\
  glyph_image_new kAB = Some Subdir /\ glyph_image_new [47; 97] = Some PathIsAbsolute.
Proof. vm_compute. repeat split. Qed.
