(** C16 — data and image stores keep their invariants and their bytes. (thin slice) *)
Require Import Norad.Model.Base Norad.Model.Store.
Open Scope N_scope.

Theorem C16_rejected_noop : forall k raw data its e its',
  insert k raw data its = (Some e, its') -> its' = its.
Proof. intros k raw data its e its'. unfold insert. destruct (validate k raw its data); congruence. Qed.
