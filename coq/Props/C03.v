(** C03 — every public entry point is total (label: PARTIAL).

    What is proved here (for all inputs / states / histories of the site models of
    Model/Totality.v): which internal invariant each [unwrap] / [expect] / index / slice /
    checked subtraction / [unreachable!] of norad's own code relies on, that the public API
    maintains it — or, for four sites, a witness history that breaks it together with the
    theorem under the exact extra hypothesis — and that norad's own loops terminate.
    What is NOT proved (searched by the harness, labelled as testing): panics, aborts and hangs
    inside quick-xml / plist / serde / std on arbitrary bytes, stack depth, allocation failure.
    The catalogue Model/Sites.v assigns one of these theorems (or a written argument class) to
    every site of the regenerated inventory; Anchors/AnchorsOK_C03.v checks the assignment. *)
Require Import Norad.Model.Base Norad.Model.Totality Norad.Model.Contour.
Require Import Norad.Proofs.TotalityP Norad.Proofs.ContourP.
Require Norad.Model.SpecTables Norad.Proofs.UpconvP.
Open Scope N_scope.

(** * The full statement, and why it does not hold of the code as it is *)

(** "no API history reaches a panic site of the layer container / of Layer::save; no layer
    directory name and no image file name accepted by the API reaches one" *)
Definition C03_full : Prop :=
  (forall name_ok fresh ops s site, lc_inv s -> lrun name_ok fresh s ops <> Panic site) /\
  (forall name_ok ops s site, lay_inv s -> bind (grun name_ok s ops) lay_save <> Panic site) /\
  (forall base dir site, layer_dir_name base dir <> Panic site) /\
  (forall p site, image_new p = Ok p -> image_to_event p <> Panic site).

Theorem C03_refuted_layer_slot_assign : exists ops,
  lrun (fun _ => true) (fun n _ => [103;46] ++ n) lc_default ops = Panic SITE_INDEX.
Proof. exact lrun_assign_refuted. Qed.

Theorem C03_refuted_entry_remove : exists ops,
  bind (grun (fun _ => true) {| glyphs := []; contents := [] |} ops) lay_save = Panic SITE_UNWRAP.
Proof. exact grun_entry_remove_refuted. Qed.

Theorem C03_refuted_layer_dir_dotdot : exists base dir, layer_dir_name base dir = Panic SITE_UNWRAP.
Proof. exact layer_dir_name_refuted. Qed.

Theorem C03_refuted_image_non_utf8 : exists p, image_new p = Ok p /\ image_to_event p = Panic SITE_UNWRAP.
Proof. exact image_non_utf8_refuted. Qed.

Theorem C03_refuted : ~ C03_full.
Proof. exact C03_full_refuted. Qed.

(** * The positive theorems, each under the exact hypothesis that excludes the known class *)

(** layers[0], rename_layer's position-unwrap, new_layer's last_mut().unwrap(): unreachable for
    every history of layer operations that does not overwrite a whole [Layer] through a [&mut] *)
Theorem C03_layer_ops_no_panic : forall name_ok fresh ops s site,
  Forall (@no_assign) ops -> lc_inv s -> lrun name_ok fresh s ops <> Panic site.
Proof. exact lrun_no_panic. Qed.
Example C03_layer_ops_hypotheses_satisfiable :
  lc_inv lc_default /\ Forall (@no_assign) [LNew [120]; LRename [120] [121] true; LRetain (fun _ => false); LDefaultLayer].
Proof. split; [exact lc_default_inv|repeat constructor]. Qed.

(** rename_layer alone: no state at all reaches its [layers[0]] or its position-unwrap *)
Theorem C03_rename_layer_no_panic : forall name_ok fresh s old new ow site,
  rename_layer name_ok fresh s old new ow <> Panic site.
Proof. exact rename_layer_no_panic. Qed.

(** Layer::save's expect: unreachable after every history of glyph operations (insert, remove,
    rename, clear, retain, entry().or_insert) that does not remove through the raw map entry *)
Theorem C03_layer_save_no_panic : forall name_ok ops s,
  Forall no_entry_remove ops -> lay_inv s -> forall site, bind (grun name_ok s ops) lay_save <> Panic site.
Proof. exact grun_save_no_panic. Qed.
Example C03_layer_save_hypotheses_satisfiable :
  lay_inv (lay_loaded [[97];[98]]) /\ Forall no_entry_remove [GInsert [99]; GRetain (fun _ => false); GEntryInsert [100]; GRename [100] [101] true].
Proof. split; [apply lay_loaded_inv|repeat constructor]. Qed.

Theorem C03_rename_glyph_no_panic : forall name_ok s a b ow site, rename_glyph name_ok s a b ow <> Panic site.
Proof. exact rename_glyph_no_panic. Qed.

(** Layer::load_impl's file_name().unwrap(): fine exactly when the directory ends in a name *)
Theorem C03_layer_dir_name_ok : forall base dir n, (exists pre, dir = pre ++ [Normal n]) -> layer_dir_name base dir = Ok n.
Proof. exact layer_dir_name_ok. Qed.

Theorem C03_image_utf8_ok : forall p site, os_utf8 p = true -> image_to_event p <> Panic site.
Proof. exact image_utf8_ok. Qed.

(** * Sites that are unreachable outright *)

(** user_name_to_file_name (public: any name, prefix, suffix, stateful closure): the only panic
    is the documented one after 99 clashes; neither back-off loop underflows or runs for ever *)
Theorem C03_u2f_only_documented_panic : forall is_upper lower accept name prefix suffix s,
  u2f is_upper lower accept name prefix suffix = Panic s -> s = SITE_U2F_99.
Proof. exact u2f_only_documented_panic. Qed.
Example C03_u2f_documented_panic_reachable :
  u2f (fun _ => false) (fun s => s) (fun _ _ => false) [97] [] [46;103] = Panic SITE_U2F_99.
Proof. vm_compute. reflexivity. Qed.
Theorem C03_backoff_terminates : forall s b,
  exists b', backoff (backoff_fuel b) s b = Ok b' /\ b' <= b /\ is_cb s b' = true.
Proof. exact backoff_fuel_ok. Qed.
Example C03_backoff_nontrivial : backoff (backoff_fuel 5) [97;8364;98] 3 = Ok 1.
Proof. vm_compute. reflexivity. Qed.

Theorem C03_parse_lib_slice : forall len start later,
  start <= len -> mono_bounded len start later ->
  exists e, parse_lib_slice len start later = Ok (start, e) /\ start <= e <= len.
Proof. exact parse_lib_slice_ok. Qed.

Theorem C03_date_slices : forall v l, date_slices v = Some l -> Forall (fun r => exists x, r = Ok x) l.
Proof. exact date_slices_ok. Qed.
Example C03_date_slices_nonvacuous :
  exists l, date_slices [50;48;50;48;47;48;49;47;48;49;32;48;48;58;48;48;58;48;48] = Some l /\ length l = 11%nat.
Proof. eexists. split; [vm_compute; reflexivity|reflexivity]. Qed.
(** without the ASCII guard the same slices do panic: a 19-byte string with a 2-byte char at 3..5 *)
Example C03_date_guard_needed :
  str_slice [50;48;50;233;47;48;49;47;48;49;32;48;48;58;48;48;58;48] 0 4 = Panic SITE_SLICE.
Proof. vm_compute. reflexivity. Qed.

Theorem C03_gasp_first : forall v, exists r, gasp_first v = Ok r.
Proof. exact gasp_first_ok. Qed.

Theorem C03_fixed_len_index : forall (n : nat) (l : list N) rs,
  deser_fixed n l = Some rs -> Forall (fun r => exists x, r = Ok x) rs.
Proof. intros n l rs. exact (deser_fixed_ok n l rs). Qed.
Theorem C03_single_point : forall (l : list N), Forall (fun r => exists x, r = Ok x) (single_point_sites l).
Proof. exact single_point_ok. Qed.

Theorem C03_kurbo_offcurve : forall (pts : list N) rs,
  kurbo_offcurve_sites pts = Some rs -> Forall (fun r => exists x, r = Ok x) rs.
Proof. intros pts rs. exact (kurbo_offcurve_ok pts rs). Qed.
Theorem C03_kurbo_rotate : forall (p : N -> bool) pts, exists r, kurbo_rotate p pts = Ok r.
Proof. intros p pts. exact (kurbo_rotate_ok p pts). Qed.

Theorem C03_store_get : forall read c site, snd (get_cell read c) <> Panic site.
Proof. exact get_cell_no_panic. Qed.
Theorem C03_save_stores : forall read s site, save_stores read s <> Panic site.
Proof. exact save_stores_no_panic. Qed.
Example C03_save_stores_nonvacuous :
  save_stores (fun k => if k =? 2 then inr 7 else inl k) [(1, NotLoaded); (3, Loaded 9)] = Ok [1; 9] /\
  save_stores (fun k => if k =? 2 then inr 7 else inl k) [(1, NotLoaded); (2, NotLoaded)] = Err 7.
Proof. split; vm_compute; reflexivity. Qed.

Theorem C03_data_parent : forall data_dir k, key_ok k = true -> exists p, data_destination_parent data_dir k = Ok p.
Proof. exact data_destination_parent_ok. Qed.
Theorem C03_walk_no_panic : forall ls fuel root queue acc site,
  Forall (fun d => exists rest, d = root ++ rest) queue -> walk ls fuel root queue acc <> Panic site.
Proof. exact walk_no_panic. Qed.

Theorem C03_object_libs : forall id ops site, odump (fold_left ostep ops (onew id)) <> Panic site.
Proof. exact odump_no_panic. Qed.

Theorem C03_upconv_names : forall prefix pat first fuel,
  name_valid prefix = true -> name_valid first = true ->
  new_name (prefix ++ remove_all fuel pat first) = Ok (prefix ++ remove_all fuel pat first).
Proof. exact new_name_prefixed_ok. Qed.
Theorem C03_upconv_lookup : forall mk firsts groups_new site,
  (forall f, In f firsts -> smem f groups_new = true) -> upconv_side mk firsts groups_new <> Panic site.
Proof. exact upconv_side_no_panic. Qed.
(** make_unique_group_name: terminates within [len + 1] rounds (pigeonhole) and its Name is valid;
    the decimal rendering of the counter enters only through injectivity and cleanliness (L1) *)
Theorem C03_make_unique : forall render,
  (forall a b, render a = render b -> a = b) -> (forall a, clean (render a) = true) ->
  forall name existing site, name_valid name = true -> make_unique render name existing <> Panic site.
Proof. exact make_unique_no_panic. Qed.

Theorem C03_serialize_within : forall k s, serialize_within k <> Panic s.
Proof. exact serialize_within_no_panic. Qed.
Theorem C03_advance_inner : forall key s, advance_inner key <> Panic s.
Proof. exact advance_inner_no_panic. Qed.
Theorem C03_from_uuid : forall s, length s = 36%nat -> forallb uuid_char s = true -> from_uuid s = Ok s.
Proof. exact from_uuid_ok. Qed.
Example C03_default_layer_name_valid : name_valid DEFAULT_LAYER_NAME = true.
Proof. vm_compute. reflexivity. Qed.

(** sites inside mechanisms modelled by other properties *)
Theorem C03_builder_unreachable : forall pts, build pts <> inl UnreachableMove.
Proof. exact build_no_unreachable. Qed.
Theorem C03_upconversion_abs_unwrap : forall t r s, Norad.Model.SpecTables.table_convert t r <> Panic s.
Proof. exact Norad.Proofs.UpconvP.table_convert_no_panic. Qed.
