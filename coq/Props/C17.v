(** C17 — a partial load equals the full load restricted to what was requested.
    Statements only; proofs live in Proofs/RequestP.v.  [load r t] is the model of
    Font::load_requested_data (Model/Request.v): a computation over the abstract file system that
    returns the loaded font (or an error) together with the list of paths it consulted. *)
From stdpp Require Import gmap strings.
From Norad.Model Require Import Fs Save Request.
From Norad.Proofs Require Import FsP RequestP.
Open Scope string_scope.
Open Scope list_scope.

(** ** The full statement, and why the code as it is does not meet it (finding F23) *)

(** "For every request and every UFO: if the full load succeeds, the partial load succeeds and
    returns the full load restricted to the request." *)
Definition C17_full : Prop :=
  ∀ (r : request) (t : path) (m : lfs) (f : lfont),
    val (load req_all t) m = inr f → val (load r t) m = inr (restrict r f).

(** The full load recognises the default layer by the LAST component of its directory, the
    default-layer-only filter by comparing the path AS WRITTEN with [glyphs]: a UFO whose
    layercontents.plist says [./glyphs] loads completely, but the default-only load fails. *)
Definition f23_fs : lfs :=
  list_to_map
    [([], Dir); (["u"], Dir); (["u"; "metainfo.plist"], File (LMeta 3 1));
     (["u"; "layercontents.plist"], File (LLayerContents [("public.default", [CurDir; Normal "glyphs"])]));
     (["u"; "glyphs"], Dir); (["u"; "glyphs"; "contents.plist"], File (LContents []))].
Definition f23_req : request := Request false false false false false false (LFilter false true None).
Theorem C17_refuted_F23 : ¬ C17_full.
Proof.
  intros H.
  assert (E : ∃ f, val (load req_all ["u"]) f23_fs = inr f) by (eexists; vm_compute; reflexivity).
  destruct E as [f E]. specialize (H f23_req ["u"] f23_fs f E).
  assert (E2 : val (load f23_req ["u"]) f23_fs = inl MissingDefaultLayer) by (vm_compute; reflexivity).
  rewrite E2 in H. discriminate H.
Qed.
Theorem C17_F23_in_class : KnownClass_F23 f23_fs ["u"].
Proof. intros H%default_plainb_spec. vm_compute in H. discriminate. Qed.
(** the class is decidable; outside it every default layer directory is written plainly *)
Theorem C17_class_decidable : ∀ m t, default_plain m t ∨ KnownClass_F23 m t.
Proof. exact F23_decidable. Qed.

(** ** Outside the class *)

(** For every request (six switches, any layer filter), every target and every file system
    outside the class: if the full load succeeds, the partial load succeeds and returns the full
    load restricted to the request. *)
Theorem C17_restrict :
  ∀ (r : request) (t : path) (m : lfs) (f : lfont),
    default_plain m t → val (load req_all t) m = inr f → val (load r t) m = inr (restrict r f).
Proof. exact load_restrict. Qed.

(** The default layer is always present and first ... *)
Theorem C17_default_present :
  ∀ (r : request) (t : path) (m : lfs) (f : lfont),
    val (load r t) m = inr f →
    ∃ d rest, lf_layers f = d :: rest ∧ ll_dir d = DEFAULT_GLYPHS_DIRNAME.
Proof. exact load_default_present. Qed.
(** ... and it is the empty placeholder when the filter selected no layer stored in [glyphs]. *)
Theorem C17_default_placeholder :
  ∀ (r : request) (t : path) (m : lfs) (f : lfont),
    val (load r t) m = inr f →
    (∀ nr, nr ∈ layer_entries_of m t → should_load (r_filter r) nr.1 nr.2 = true →
           file_name_of t nr.2 ≠ Some DEFAULT_GLYPHS_DIRNAME) →
    ∃ rest, lf_layers f = placeholder :: rest.
Proof. exact load_default_placeholder. Qed.

(** No file of an un-requested part is consulted: every logged path (or listed directory) is
    disjoint from the files of un-requested parts.  For well-formed UFOs (distinct plain layer
    directories and glif names that do not collide with other parts' files). *)
Theorem C17_not_read :
  ∀ (r : request) (t : path) (m : lfs),
    wf_ufo m t →
    ∀ e p, e ∈ log (load r t) m → unrequested r t m p → ¬ touches e p.
Proof.
  intros r t m Hwf e p He Hp. pose proof (not_read r t m Hwf) as H.
  unfold logs in H. rewrite Forall_forall in H. by apply (H e He p).
Qed.

(** The outcome — value or error, and the read set itself — depends only on what was consulted. *)
Theorem C17_depends_on_read_set_only :
  ∀ (r : request) (t : path) (m m' : lfs),
    agree (log (load r t) m) m m' → load r t m' = load r t m.
Proof. intros r t m m'. apply local_load. Qed.

(** Hence corrupting, replacing or deleting files of un-requested parts cannot change the
    result, in particular cannot make the load fail. *)
Theorem C17_corruption_irrelevant :
  ∀ (r : request) (t : path) (m m' : lfs),
    wf_ufo m t → (∀ p, ¬ unrequested r t m p → m' !! p = m !! p) → load r t m' = load r t m.
Proof. exact corruption_irrelevant. Qed.

(** Non-vacuity: a UFO with a lib carrying guideline object libs, groups, two layers, data; the
    default layer is second in the file.  Loaded with only [groups] and a predicate that accepts
    the background layer: hypotheses hold, the full load succeeds, the partial load is its
    restriction, the default layer is the placeholder, and garbage in lib.plist, kerning.plist and
    the default layer's files does not matter (while it does break the full load). *)
Definition ex17_fs : lfs :=
  list_to_map
    [([], Dir); (["u"], Dir);
     (["u"; "metainfo.plist"], File (LMeta 3 11));
     (["u"; "lib.plist"], File (LLib 12 (OGood 13)));
     (["u"; "fontinfo.plist"], File (LInfo 14 true true));
     (["u"; "groups.plist"], File (LGroups 15 true));
     (["u"; "kerning.plist"], File (LKerning 16));
     (["u"; "layercontents.plist"], File (LLayerContents [("bg", [Normal "glyphs.bg"]); ("public.default", [Normal "glyphs"])]));
     (["u"; "glyphs.bg"], Dir);
     (["u"; "glyphs.bg"; "contents.plist"], File (LContents [("a", [Normal "a.glif"])]));
     (["u"; "glyphs.bg"; "a.glif"], File (LGlif 20));
     (["u"; "glyphs"], Dir);
     (["u"; "glyphs"; "contents.plist"], File (LContents [("a", [Normal "a.glif"]); ("b", [Normal "b.glif"])]));
     (["u"; "glyphs"; "a.glif"], File (LGlif 21));
     (["u"; "glyphs"; "b.glif"], File (LGlif 22));
     (["u"; "glyphs"; "layerinfo.plist"], File (LLayerInfo 23));
     (["u"; "data"], Dir); (["u"; "data"; "x.bin"], File (LBytes 1))].
Definition ex17_req : request :=
  Request false true false false false false (LFilter false false (Some [("bg", [Normal "glyphs.bg"])])).
Definition ex17_garbled : lfs :=
  <[["u"; "lib.plist"] := File (LGarbage 7)]>
    (<[["u"; "kerning.plist"] := File (LGarbage 7)]>
       (<[["u"; "glyphs"; "contents.plist"] := File (LGarbage 7)]>
          (delete ["u"; "glyphs"; "a.glif"] ex17_fs))).
Example C17_example :
  ∃ full,
    val (load req_all ["u"]) ex17_fs = inr full ∧
    lf_lib full = (12%N, ONone) ∧ lf_info full = (14%N, Some 13%N) ∧ length (lf_layers full) = 2 ∧
    val (load ex17_req ["u"]) ex17_fs = inr (restrict ex17_req full) ∧
    lf_info (restrict ex17_req full) = (14%N, None) ∧ lf_groups (restrict ex17_req full) = 15%N ∧
    lf_kerning (restrict ex17_req full) = 0%N ∧
    (∃ bg, lf_layers (restrict ex17_req full) = [placeholder; bg] ∧ ll_name bg = "bg") ∧
    load ex17_req ["u"] ex17_garbled = load ex17_req ["u"] ex17_fs ∧
    val (load req_all ["u"]) ex17_garbled = inl (ParsePlist LIB_FILE).
Proof.
  eexists. split; [vm_compute; reflexivity|].
  do 7 (split; [vm_compute; reflexivity|]).
  split; [eexists; split; vm_compute; reflexivity|].
  split; vm_compute; reflexivity.
Qed.
Example C17_example_wf : wf_ufo ex17_fs ["u"] ∧ default_plain ex17_fs ["u"].
Proof.
  assert (E : layer_entries_of ex17_fs ["u"] = [("bg", [Normal "glyphs.bg"]); ("public.default", [Normal "glyphs"])])
    by (vm_compute; reflexivity).
  split.
  - unfold wf_ufo. rewrite E. split.
    + constructor; [|constructor; [|constructor]].
      * exists "glyphs.bg". split; [done|]. split; [apply (proj1 (bool_decide_eq_false _)); vm_compute; reflexivity|].
        assert (glif_entries_of ex17_fs (["u"] ++ ["glyphs.bg"]) = [("a", [Normal "a.glif"])]) as -> by (vm_compute; reflexivity).
        constructor; [by eexists|constructor].
      * exists "glyphs". split; [done|]. split; [apply (proj1 (bool_decide_eq_false _)); vm_compute; reflexivity|].
        assert (glif_entries_of ex17_fs (["u"] ++ ["glyphs"]) = [("a", [Normal "a.glif"]); ("b", [Normal "b.glif"])]) as -> by (vm_compute; reflexivity).
        constructor; [by eexists|]. constructor; [by eexists|constructor].
    + apply (bool_decide_unpack _). vm_compute. exact I.
  - apply default_plainb_spec. vm_compute. reflexivity.
Qed.
