(** C07 — assigned file names are portable, unique ignoring case, and stable.
    Statements only; proofs live in Proofs/FileNameP.v (function level) and Proofs/LayerP.v
    (container level, see the second half of this file once Layer.v is present).

    [u2f is_upper lower name prefix suffix accept] models [norad::user_name_to_file_name];
    [None] is its documented panic.  Every theorem is for ALL [is_upper : N -> bool] and
    [lower : str -> str] (nothing is assumed about char::is_uppercase / str::to_lowercase),
    all names (any code points, any length) and all [accept] closures. *)
From Coq Require Import String.
Require Import Norad.Model.Base Norad.Model.FileName Norad.Proofs.FileNameP Norad.Model.Layer Norad.Proofs.LayerP.
From stdpp Require Import gmap.
Open Scope N_scope.

(** The function never returns a candidate its caller rejected. *)
Theorem C07_u2f_accepted : forall is_upper lower name prefix suffix accept r,
  u2f is_upper lower name prefix suffix accept = Some r -> accept (lower r) = true.
Proof. exact u2f_accepted. Qed.

(** It panics (documented) exactly when the first candidate and all of 01..99 were rejected. *)
Theorem C07_u2f_panic_iff_all_rejected : forall is_upper lower name prefix suffix accept,
  u2f is_upper lower name prefix suffix accept = None <->
  accept (lower (base is_upper name prefix suffix ++ suffix)) = false /\
  forall k, 1 <= k < 100 ->
    accept (lower (counter_stem is_upper name prefix suffix ++ two_digits k ++ suffix)) = false.
Proof. exact u2f_none_iff. Qed.

(** Length.  The full statement is false for the code as it is (F1, enshrined by norad's own
    test path_for_name_clashes_max_len); it holds outside the exact class [ClippedClash]. *)
Definition C07_len_full : Prop :=
  forall is_upper lower name prefix suffix accept r, blen suffix <= MAX_LEN ->
    u2f is_upper lower name prefix suffix accept = Some r -> blen r <= MAX_LEN.
Theorem C07_u2f_len_refuted : ~ C07_len_full.
Proof. exact len_full_refuted. Qed.
Theorem C07_u2f_len_255 : forall is_upper lower name prefix suffix accept r,
  blen suffix <= MAX_LEN -> ~ ClippedClash is_upper lower name prefix suffix accept ->
  u2f is_upper lower name prefix suffix accept = Some r -> blen r <= MAX_LEN.
Proof. exact u2f_len_255. Qed.
(** ... and the class is exact: inside it the returned name is always too long. *)
Theorem C07_u2f_len_class_exact : forall is_upper lower name prefix suffix accept r,
  ClippedClash is_upper lower name prefix suffix accept ->
  u2f is_upper lower name prefix suffix accept = Some r -> MAX_LEN < blen r.
Proof. exact u2f_len_over. Qed.
(** the executable class test used by the correspondence run decides the class *)
Theorem C07_clipped_clashb_decides : forall is_upper lower name prefix suffix accept,
  clipped_clashb is_upper lower name prefix suffix accept = true <->
  ClippedClash is_upper lower name prefix suffix accept.
Proof. exact clipped_clashb_spec. Qed.
Example C07_class_inhabited :
  exists r, glyph_file_name ascii_is_upper ascii_lower f1_name f1_accept = Some r /\ blen r = 257 /\
            ClippedClash ascii_is_upper ascii_lower f1_name GLYPH_PREFIX GLYPH_SUFFIX f1_accept.
Proof. exact f1_witness. Qed.

(** No illegal character, given affixes without one (the function's debug_assert). *)
Theorem C07_u2f_no_illegal_char : forall is_upper lower name prefix suffix accept r,
  Forall (fun c => illegalb c = false) prefix -> Forall (fun c => illegalb c = false) suffix ->
  u2f is_upper lower name prefix suffix accept = Some r -> Forall (fun c => illegalb c = false) r.
Proof. exact u2f_no_illegal_char. Qed.
(** No control character when the name has none ([Name::new] guarantees it). *)
Theorem C07_u2f_no_control_char : forall is_upper lower name prefix suffix accept r,
  Forall (fun c => controlb c = false) name ->
  Forall (fun c => controlb c = false) prefix -> Forall (fun c => controlb c = false) suffix ->
  u2f is_upper lower name prefix suffix accept = Some r -> Forall (fun c => controlb c = false) r.
Proof. exact u2f_no_control_char. Qed.

(** The stem (text before the first period) is not a reserved device name — also after clipping
    and after the counter was appended. *)
Theorem C07_u2f_not_reserved : forall is_upper lower name prefix suffix accept r,
  (suffix = [] \/ exists t, suffix = DOT :: t) -> blen suffix <= 247 ->
  u2f is_upper lower name prefix suffix accept = Some r -> is_reserved (stem r) = false.
Proof. exact u2f_not_reserved. Qed.
(** ... nor one up to ASCII case, when ASCII capitals count as upper-case and the prefix has none. *)
Theorem C07_u2f_not_reserved_ci : forall is_upper lower name prefix suffix accept r,
  (forall c, ascii_upb c = true -> is_upper c = true) -> existsb ascii_upb prefix = false ->
  (suffix = [] \/ exists t, suffix = DOT :: t) -> blen suffix <= 247 ->
  u2f is_upper lower name prefix suffix accept = Some r -> is_reserved_ci (stem r) = false.
Proof. exact u2f_not_reserved_ci. Qed.
Example C07_reserved_examples :
  glyph_file_name ascii_is_upper ascii_lower (s2l "con"%string) (fun _ => true) = Some (s2l "_con.glif"%string) /\
  glyph_file_name ascii_is_upper ascii_lower (s2l "CON"%string) (fun _ => true) = Some (s2l "C_O_N_.glif"%string) /\
  glyph_file_name ascii_is_upper ascii_lower (s2l "com1.x"%string) (fun _ => true) = Some (s2l "_com1.x.glif"%string) /\
  layer_dir_name ascii_is_upper ascii_lower (s2l "con"%string) (fun _ => true) = Some (s2l "glyphs.con"%string).
Proof. repeat split; vm_compute; reflexivity. Qed.

(** Without a prefix (glif files) the name does not start with a period. *)
Theorem C07_u2f_no_leading_period : forall is_upper lower name suffix accept r,
  name <> [] -> blen suffix <= 247 ->
  u2f is_upper lower name [] suffix accept = Some r -> exists c t, r = c :: t /\ c <> DOT.
Proof. exact u2f_no_leading_period. Qed.

(** It does not end with a period or a space. *)
Theorem C07_u2f_no_trailing_period_space : forall is_upper lower name prefix suffix accept r,
  name <> [] -> suffix_ok suffix -> blen prefix + 1 + 4 + blen suffix <= MAX_LEN ->
  u2f is_upper lower name prefix suffix accept = Some r -> exists m c, r = m ++ [c] /\ is_ds c = false.
Proof. exact u2f_no_trailing_period_space. Qed.

(** The suffix is always there; the prefix is there when its stem is not reserved ("glyphs."
    qualifies; since fix 307c683 also for names made of periods and spaces only). *)
Theorem C07_u2f_suffix_kept : forall is_upper lower name prefix suffix accept r,
  u2f is_upper lower name prefix suffix accept = Some r -> exists m, r = m ++ suffix.
Proof. exact u2f_suffix_kept. Qed.
Theorem C07_u2f_prefix_kept : forall is_upper lower name prefix suffix accept r,
  has_dot prefix = true -> is_reserved (stem prefix) = false ->
  blen prefix + blen suffix + NUMBER_LEN <= MAX_LEN ->
  u2f is_upper lower name prefix suffix accept = Some r -> exists m, r = prefix ++ m ++ suffix.
Proof. exact u2f_prefix_kept. Qed.
Example C07_dots_spaces_layer :
  layer_dir_name ascii_is_upper ascii_lower (s2l ". ."%string) (fun _ => true) = Some (s2l "glyphs.___"%string).
Proof. vm_compute. reflexivity. Qed.

(** A single path component. *)
Theorem C07_u2f_single_component : forall is_upper lower name prefix suffix accept r,
  name <> [] -> Forall (fun c => illegalb c = false) prefix ->
  Forall (fun c => illegalb c = false) suffix ->
  suffix_ok suffix -> blen prefix + 1 + 4 + blen suffix <= MAX_LEN ->
  (prefix = [] -> blen suffix <= 247) ->
  (prefix <> [] -> suffix = [] -> exists c, In c prefix /\ c <> DOT) ->
  (suffix <> [] -> exists c, In c suffix /\ c <> DOT) ->
  u2f is_upper lower name prefix suffix accept = Some r -> single_component r.
Proof. exact u2f_single_component. Qed.

(** The two callers: every clause of the property for glif file names and layer directories
    derived from valid names. *)
Theorem C07_glyph_file_name : forall is_upper lower name accept r,
  name_valid name -> glyph_file_name is_upper lower name accept = Some r ->
  portable_name r /\
  (exists c t, r = c :: t /\ c <> DOT) /\
  (exists m, r = m ++ GLYPH_SUFFIX) /\
  accept (lower r) = true /\
  (~ ClippedClash is_upper lower name GLYPH_PREFIX GLYPH_SUFFIX accept -> blen r <= MAX_LEN).
Proof. exact glyph_file_name_spec. Qed.
Theorem C07_layer_dir_name : forall is_upper lower name accept r,
  name_valid name -> layer_dir_name is_upper lower name accept = Some r ->
  portable_name r /\
  (exists m, r = LAYER_PREFIX ++ m /\ m <> []) /\
  accept (lower r) = true /\
  blen r <= MAX_LEN.
Proof. exact layer_dir_name_spec. Qed.
Theorem C07_wrappers_not_reserved_ci : forall is_upper lower name accept r,
  (forall c, ascii_upb c = true -> is_upper c = true) ->
  glyph_file_name is_upper lower name accept = Some r \/
  layer_dir_name is_upper lower name accept = Some r ->
  is_reserved_ci (stem r) = false.
Proof. exact wrappers_not_reserved_ci. Qed.
Example C07_wrappers_nonvacuous :
  name_valid (s2l "A.alt"%string) /\
  glyph_file_name ascii_is_upper ascii_lower (s2l "A.alt"%string) (not_in [s2l "a_.alt.glif"%string])
    = Some (s2l "A_.alt01.glif"%string) /\
  layer_dir_name ascii_is_upper ascii_lower (s2l "A.alt"%string) (not_in [])
    = Some (s2l "glyphs.A_.alt"%string).
Proof.
  split; [split; [discriminate|repeat constructor]|]. split; vm_compute; reflexivity.
Qed.

(** ------------------------------------------------------------------------------------------
    Container level (model: Model/Layer.v, see Props/C06.v for the invariant).

    Within one layer the assigned glif names, and within one font the directories of the
    non-default layers, are pairwise distinct even when compared through [lower]; all layer
    directories are distinct as they are.  After ANY history of operations on a new font (or
    on any font that satisfies the invariant, e.g. any loaded font) that
    does not use the raw entry access and did not panic. *)
Theorem C07_distinct : forall is_upper lower ops s s',
  Inv lower s -> clean is_upper lower s ops -> run is_upper lower s ops = Some s' -> distinct_paths lower s'.
Proof. exact distinct_over_histories. Qed.
Theorem C07_distinct_new_font : forall is_upper lower ops s',
  clean is_upper lower init ops -> run is_upper lower init ops = Some s' -> distinct_paths lower s'.
Proof. intros iu lo ops s' Hc Hr. exact (distinct_over_histories iu lo ops init s' (inv_init lo) Hc Hr). Qed.
Theorem C07_distinct_loaded : forall lower d s, load lower d = Some s -> distinct_paths lower s.
Proof. intros lo d s Hl. exact (inv_distinct lo s (inv_loaded lo d s Hl)). Qed.
Example C07_distinct_nonvacuous :
  let ops := [InsertGlyph DEFAULT_LAYER_NAME nA; InsertGlyph DEFAULT_LAYER_NAME [97;95]%N; NewLayer nA; NewLayer [97;95]%N] in
  exists s', run ascii_is_upper ascii_lower init ops = Some s' /\
    glyph_path s' DEFAULT_LAYER_NAME nA = Some (s2l "A_.glif"%string) /\
    glyph_path s' DEFAULT_LAYER_NAME [97;95]%N = Some (s2l "a_01.glif"%string) /\
    layer_dir s' nA = Some (s2l "glyphs.A_"%string) /\ layer_dir s' [97;95]%N = Some (s2l "glyphs.a_01"%string).
Proof. exact distinct_example. Qed.

(** Entries that stay in a container keep their file name: an operation changes the file name
    of glyph [g] in layer [ln] (the directory of layer [ln]) only if it names them, clears or
    filters their container, or removes / renames / overwrites the layer. *)
Theorem C07_stable_glyph : forall is_upper lower s o ln g q,
  Inv lower s -> (forall site, (step is_upper lower s o).2 <> OPanic site) ->
  glyph_path s ln g = Some q -> ~ touches_glyph o ln g ->
  glyph_path (step is_upper lower s o).1 ln g = Some q.
Proof. exact stable_glyph. Qed.
Theorem C07_stable_layer : forall is_upper lower s o ln p,
  Inv lower s -> (forall site, (step is_upper lower s o).2 <> OPanic site) ->
  layer_dir s ln = Some p -> ~ touches_layer o ln ->
  layer_dir (step is_upper lower s o).1 ln = Some p.
Proof. exact stable_layer. Qed.

(** Every file name and directory in a font built through the API (any history from a new font
    without raw entry access) was assigned by the file-name function for the current glyph /
    layer name, and therefore satisfies the clauses above: portable, '.glif' suffix and no
    leading period for glyphs, 'glyphs.' prefix and <= 255 bytes for layer directories.  (The
    255-byte bound for glif names holds outside the class [ClippedClash], see C07_glyph_file_name.) *)
Theorem C07_assigned_invariant : forall is_upper lower ops s',
  clean is_upper lower init ops -> run is_upper lower init ops = Some s' ->
  Inv lower s' /\ AInv is_upper lower s'.
Proof.
  intros iu lo ops s' Hc Hr.
  exact (reachable_assigned iu lo ops init s' (inv_init lo) (ainv_init iu lo) Hc Hr).
Qed.
Theorem C07_assigned_portable : forall is_upper lower s, Inv lower s -> AInv is_upper lower s ->
  forall l, l ∈ layers s ->
    (forall g q, l_contents l !! g = Some q ->
       portable_name q /\ (exists c t, q = c :: t /\ c <> DOT) /\ (exists m, q = m ++ GLYPH_SUFFIX)) /\
    (l_path l = DEFAULT_GLYPHS_DIRNAME \/
     (portable_name (l_path l) /\ (exists m, l_path l = LAYER_PREFIX ++ m /\ m <> []) /\ (blen (l_path l) <= MAX_LEN)%N)).
Proof. exact assigned_portable. Qed.
