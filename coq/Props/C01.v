(** C01 — saving a font and loading it back preserves all font data.
    Statements only; proofs live in Proofs/FontRTP.v and Proofs/FontToyP.v.

    For ALL signatures [S] with the laws [sig_ok S] (see Model/FontRT.v; discharged part by part
    by C02 (glif), C13/C14 (font info, numbers), C15 (groups, kerning), and the L1 plist / XML
    hypotheses), ALL fonts and ALL write options.  [font_valid] is UFO 3 validity: format 3,
    every part valid for its writer (the complement of the known-finding classes of the part
    owners), no user-supplied [public.objectLibs], guideline libs only with identifiers, distinct
    identifiers, first layer in [glyphs] and nobody else, distinct layer directories and glif file
    names.  [font_equiv] is the equality of the property: everything but the creator, numbers /
    colours under the part equalities, feature text up to line endings, stores byte-identical. *)
Require Import Norad.Model.GlifSpec Norad.Model.GlifEncode Norad.Proofs.GlifEncodeP Norad.Proofs.GlifRoundtripP Norad.Proofs.GlifFullP.
Require Import Norad.Model.Base Norad.Model.FontRT Norad.Model.FontToy Norad.Model.FontNum Norad.Model.FontRealInfo Norad.Model.FontReal Norad.Model.FontRealPlist Norad.Model.FontRealFiles Norad.Model.FontInfoFile Norad.Model.FontInfoSchema Norad.Model.FontInfoView
               Norad.Proofs.FontRealInfoP
               Norad.Proofs.FontRTP Norad.Proofs.FontToyP Norad.Proofs.FontNumP Norad.Proofs.FontRealP Norad.Proofs.PlistNfP Norad.Proofs.FontRealFilesP Norad.Proofs.FontInfoFileP Norad.Proofs.FontInfoViewP.
Open Scope N_scope.

Theorem C01_roundtrip : forall (S : sig), sig_ok S -> forall o (f : font S),
  font_valid S f ->
  exists t, save S o f = Ok t /\ exists f', load S t = Ok f' /\ font_equiv S f f'.
Proof.
  intros S OK o f Hv. destruct (save_load_roundtrip S OK o f Hv) as (t & H1 & _ & H2). eauto.
Qed.

(** the write options (indent character and width, quote style) never matter *)
Theorem C01_options_irrelevant : forall (S : sig), sig_ok S -> forall o1 o2 (f : font S),
  font_valid S f ->
  exists t1 t2 f1 f2, save S o1 f = Ok t1 /\ save S o2 f = Ok t2 /\
                      load S t1 = Ok f1 /\ load S t2 = Ok f2 /\ font_equiv S f1 f2.
Proof. exact options_irrelevant. Qed.

(** which optional files exist after a save: exactly as coded (fontinfo.plist iff the info is not
    the default; lib.plist iff the lib is non-empty or some guideline has a lib; groups / kerning
    iff non-empty; features.fea iff the text is non-empty; layerinfo.plist iff a colour or a
    non-empty lib — so a colour-only layer keeps its file; store directories iff non-empty;
    metainfo, layercontents and every contents.plist always) ... *)
Theorem C01_optional_files_gating : forall (S : sig), sig_ok S -> forall o (f : font S) (t : tree S),
  font_valid S f -> save S o f = Ok t ->
  t_meta S t <> None /\ t_lcontents S t <> None /\
  (t_info S t = None <-> info_is_default S (f_info S f) = true) /\
  (t_lib S t = None <-> d_is_empty S (f_lib S f) = true /\
                        Forall (fun g => g_lib g = None) (guides_of S (f_info S f))) /\
  (t_groups S t = None <-> groups_is_empty S (f_groups S f) = true) /\
  (t_kerning S t = None <-> kerning_is_empty S (f_kerning S f) = true) /\
  (t_features S t = None <-> f_features S f = []) /\
  (t_data S t = None <-> f_data S f = []) /\ (t_images S t = None <-> f_images S f = []) /\
  Forall2 (layer_gating S) (f_layers S f) (t_dirs S t).
Proof. exact gating_sound. Qed.

(** ... and a file that is absent is read as the default value of its part, so skipping is sound:
    a skipped part is exactly a part that load defaults to the same value *)
Theorem C01_optional_files_gating_sound : forall (S : sig), sig_ok S ->
  forall (t : tree S) (f : font S) mc m,
  load S t = Ok f -> t_meta S t = Some mc -> dec (P_meta S) mc = Some m -> m_version m = 3 ->
  (t_info S t = None -> f_info S f = info_dflt S) /\
  (t_lib S t = None -> f_lib S f = d_empty S) /\
  (t_groups S t = None -> f_groups S f = groups_dflt S) /\
  (t_kerning S t = None -> f_kerning S f = kerning_dflt S) /\
  (t_features S t = None -> f_features S f = []) /\
  (t_data S t = None -> f_data S f = []) /\ (t_images S t = None -> f_images S f = []) /\
  (forall l d, In l (f_layers S f) -> alookup (l_dir l) (t_dirs S t) = Some d -> ld_info S d = None ->
               l_color l = None /\ l_lib l = d_empty S).
Proof. exact load_defaults. Qed.

(** feature text: what is written equals the text up to line endings; one pass of the writer's
    replacement is not idempotent (CR CR LF -> CR LF -> LF), which is why the equality is the
    normal form *)
Theorem C01_features_line_endings : forall t, feq t (features_to_write t).
Proof. exact feq_features_to_write. Qed.
Theorem C01_features_replace_not_idempotent :
  replace_crlf (replace_crlf [CR; CR; LF]) <> replace_crlf [CR; CR; LF].
Proof. exact replace_crlf_not_idempotent. Qed.

(** save refuses exactly: a format other than 3, a user-supplied public.objectLibs (before
    anything is written) *)
Theorem C01_save_refuses : forall (S : sig) o (f : font S),
  (m_version (f_meta S f) <> 3 -> save S o f = Err SDowngrade) /\
  (m_version (f_meta S f) = 3 -> d_get S OBJ (f_lib S f) <> None -> save S o f = Err SPreexistingObjectLibs).
Proof. exact save_refuses. Qed.

(** Numbers: the three integer-or-float writers (kerning, font info, unitsPerEm) write [v] as an
    integer [t] only when [v] is exactly [t] (cf70ca2); so the written value is the same value, a
    fortiori within the property's 1e-9.  Regression examples: 2^-60 and 1 + 2^-52, which the
    writers used to turn into 0 and 1, are not written as integers. *)
Theorem C01_written_integer_exact : forall (v : Q) (t : Z),
  written_as_integer v t -> v == inject_Z t /\ within v (inject_Z t).
Proof. exact written_exact. Qed.
Example C01_tiny_number_not_flushed : ~ written_as_integer (1 # 1152921504606846976) 0.
Proof. exact tiny_not_integer. Qed.
Example C01_near_integer_not_rounded : ~ written_as_integer (4503599627370497 # 4503599627370496) 1.
Proof. exact near_one_not_integer. Qed.

(** Non-vacuity: the laws have a model; the example font is valid and its saved tree is exactly
    these files; the empty font is valid and saves three files. *)
Example C01_laws_satisfiable : sig_ok toy_sig.
Proof. exact toy_ok. Qed.
Example C01_valid_font : font_valid toy_sig toy_font /\ font_valid toy_sig toy_empty.
Proof. split; [exact toy_font_valid|exact toy_empty_valid]. Qed.
Example C01_example_file_set :
  exists t, save toy_sig 0 toy_font = Ok t /\
    paths_of toy_sig norad_names t =
      [[s "metainfo.plist"]; [s "fontinfo.plist"]; [s "lib.plist"]; [s "groups.plist"]; [s "features.fea"];
       [s "layercontents.plist"]; [s "glyphs"; s "contents.plist"]; [s "glyphs"; s "layerinfo.plist"];
       [s "glyphs"; s "a.glif"]; [s "glyphs"; s "B_.glif"]; [s "glyphs.bg"; s "contents.plist"];
       [s "glyphs.bg"; s "layerinfo.plist"]; [s "data"; s "d"; s "e.bin"]].
Proof. eexists. split; vm_compute; reflexivity. Qed.
Example C01_empty_font_file_set :
  exists t, save toy_sig 0 toy_empty = Ok t /\
    paths_of toy_sig norad_names t = [[s "metainfo.plist"]; [s "layercontents.plist"]; [s "glyphs"; s "contents.plist"]].
Proof. eexists. split; vm_compute; reflexivity. Qed.

(** ---------- with the REAL part models plugged in (Model/FontReal.v) ----------

    [real_sig pf ff ff3 fi fh K] is the font-level signature with
    - the REAL glif codec: [encode_glif] / [parse_glif] (Model/GlifEncode.v, GlifParse.v) on the
      glyph type of Model/Glif.v, names assigned as Layer::load_impl does;
    - the REAL font info: the validated FontInfo view of C13 (Model/FontInfo.v) split into
      "rest" and guidelines, written by [fi_save] + [encode], read by [fi_load], validated by
      [fi_validate];
    - the REAL groups and kerning maps of Model/Groups.v with the real validator
      [validate_groups], the real emptiness tests / defaults and the real kerning upconversion;
    - the REAL plist values and dictionaries of Model/Plist.v ([Dictionary::get / insert / remove]);
    - a record [K : codecs] of the seven file codecs of the plist layer (metainfo, lib, groups,
      kerning, layercontents, contents, layerinfo), the colour type and [str::to_lowercase].
    PROVED for this instance (Proofs/FontRealP.v, [real_sig_ok]): the laws of [sig_ok] about the
    glif codec and glyph names (from C02_roundtrip, libs included), about the
    font-info codec, its default and validator (from C13_entry_points_agree), about the groups
    validator, emptiness tests and defaults, and the whole dictionary algebra.

    Hypotheses that remain, and what would discharge them:
    - [codecs_ok K]: each of the seven file codecs is lawful (round trip on its domain, options
      irrelevant), metainfo / layercontents / contents / groups come back exactly, the lib and
      layerinfo equalities are the dictionary equality, and which values each writer represents.
      All of these are facts about the plist layer only: the L1 hypothesis
      plist_read (plist_write v) = Some v over Model/Plist.v plus the serde shape of each file
      (Schema-style decode_encode); the kerning file additionally needs Model/Num.v (the
      integer-or-float writer is exact since cf70ca2).  Satisfiable: [C01_real_codecs_satisfiable].
    - [L1_glif]: f64 Display / from_str invert on finite numbers, the {:.3} rendering of a colour
      channel holds no comma and reads back inside 0..1, {:04X} reads back, the integer text of the
      plist writer reads back (the four L1 hypotheses of C02_roundtrip; validated on every value
      by the C02 run).
    - in [font_valid]: every glyph satisfies [wf_glyph] — the glyph rules of C12, finite numbers,
      glyph lib and object libs the plist writer and reader agree on ([libs_valid]), outside F3 for
      every write option (a surviving note, no line break in lib text: the known classes
      note_blanks / glyph_lib_linebreak), and canonical form (no negative zero where the writer
      tests [== 0.0], colours that are fixed points of the three-decimal rendering, lib keys sorted
      recursively — the form every written-and-re-read glyph has) — and the font info satisfies
      [wf_sinfo] (FontInfo::validate accepts, integer fields within their machine types).
    On that domain glyphs (libs included), font info and groups come back exactly.  Values of the
    font lib, layer libs and guideline libs are compared as maps: the order of the keys of a
    dictionary (reached through dictionaries) is not observable ([pv_eqv], decided by the
    normal form [nf] of Model/FontReal.v; C01_plist_equality_is_map_equality). *)
Theorem C01_roundtrip_real : forall pf ff ff3 fi fh (K : codecs),
  L1_glif pf ff ff3 fi fh -> codecs_ok K ->
  forall o (f : font (real_sig pf ff ff3 fi fh K)),
  font_valid (real_sig pf ff ff3 fi fh K) f ->
  exists t, save (real_sig pf ff ff3 fi fh K) o f = Ok t /\
            spec_write (real_sig pf ff ff3 fi fh K) norad_choices o f = Some t /\
            exists f', load (real_sig pf ff ff3 fi fh K) t = Ok f' /\ font_equiv (real_sig pf ff ff3 fi fh K) f f'.
Proof. exact roundtrip_real. Qed.
Theorem C01_roundtrip_real_glyphs_exact : forall pf ff ff3 fi fh (K : codecs)
  (f f' : font (real_sig pf ff ff3 fi fh K)),
  font_equiv (real_sig pf ff ff3 fi fh K) f f' ->
  map l_glyphs (f_layers _ f) = map l_glyphs (f_layers _ f').
Proof. exact roundtrip_real_glyphs_exact. Qed.
(** the remaining law hypothesis is satisfiable (every lawful signature provides it), and the glyph
    domain holds a glyph with code points, a note, an anchor, a component and a contour *)
Example C01_real_codecs_satisfiable : codecs_ok id_codecs.
Proof. exact id_codecs_ok. Qed.
Example C01_real_glyph_domain_inhabited : forall pf ff3, wf_glyph pf ff3 g_real_sample.
Proof. exact real_sample_wf. Qed.
Example C01_real_info_domain_inhabited : wf_sinfo si_real_sample.
Proof. exact si_real_sample_wf. Qed.

(** ---------- metainfo.plist, layercontents.plist, contents.plist from the tree-level plist codec ----------
    [with_plist_files pf ff fi K4] is a [codecs] whose three simplest files are no longer abstract
    (Model/FontRealPlist.v): the file content is the XML tree of the plist; the writer is
    [pv_node] of Model/GlifEncode.v (the tree plist::to_writer_xml produces) applied to the value
    the serde shape of the file gives (MetaInfo: creator / formatVersion / formatVersionMinor, the
    minor version left out when 0; layercontents: an array of [name, directory] pairs; contents: a
    dictionary name -> file name); the reader is [pv_of] of Model/Plist.v followed by the
    deserializer of that shape (formatVersion one of 1, 2, 3; layer and glyph names must be [Name]s;
    contents goes into a BTreeMap).  Their round trip is PROVED from C02_lib_value_read_back
    ([pv_read_back]); their equality is [eq].
    Domains: metainfo with version 1..3 and a minor version below 2^32; layercontents whose names
    are valid; contents sorted by glyph name (the BTreeMap order — the order norad's layer holds its
    glyphs in) with valid names.  Inhabited: [C01_real_plist_file_domains_inhabited].

    Hypotheses that remain in [codecs4_ok K4]: lawfulness of the lib, groups, kerning and layerinfo
    codecs (arbitrary plist values / nested dictionaries of numbers: the value-level fact is the same
    C02_lib_value_read_back; what is missing is the serde shape of Groups / Kerning / LayerInfo and,
    for kerning, the integer-or-float writer of Model/Num.v), the two dictionary equalities, and
    which keys / values / colours the writer represents.  Satisfiable: [C01_real_codecs4_satisfiable].
    [L1_glif] supplies the float and integer text facts the plist reader needs. *)
Theorem C01_real_plist_files_lawful : forall pf ff ff3 fi fh (K4 : codecs4),
  L1_glif pf ff ff3 fi fh -> codecs4_ok K4 -> codecs_ok (with_plist_files pf ff fi K4).
Proof. exact plist_files_lawful. Qed.
Theorem C01_roundtrip_real_plist_files : forall pf ff ff3 fi fh (K4 : codecs4),
  L1_glif pf ff ff3 fi fh -> codecs4_ok K4 ->
  forall o (f : font (real_sig pf ff ff3 fi fh (with_plist_files pf ff fi K4))),
  font_valid (real_sig pf ff ff3 fi fh (with_plist_files pf ff fi K4)) f ->
  exists t, save (real_sig pf ff ff3 fi fh (with_plist_files pf ff fi K4)) o f = Ok t /\
            spec_write (real_sig pf ff ff3 fi fh (with_plist_files pf ff fi K4)) norad_choices o f = Some t /\
            exists f', load (real_sig pf ff ff3 fi fh (with_plist_files pf ff fi K4)) t = Ok f' /\
                       font_equiv (real_sig pf ff ff3 fi fh (with_plist_files pf ff fi K4)) f f'.
Proof. exact roundtrip_real_plist. Qed.
Example C01_real_codecs4_satisfiable : codecs4_ok id_codecs4.
Proof. exact id_codecs4_ok. Qed.
Example C01_real_plist_file_domains_inhabited :
  wf_meta {| m_creator := Some NORAD_CREATOR; m_version := 3; m_minor := 0 |} /\
  wf_lc [([102;111;114;101], [103;108;121;112;104;115])] /\
  wf_ct [([65], [65;95;46;103;108;105;102]); ([97], [97;46;103;108;105;102])].
Proof. exact plist_files_domains_inhabited. Qed.

(** ---------- every file through the plist tree: no file codec left abstract ----------
    [all_files pf ff ff3 fi to_bits of_bits lw] (Model/FontRealFiles.v) is a [codecs] with, besides
    the three files above,
    - lib.plist: the dictionary itself, written after [util::recursive_sort_plist_keys]; read as the
      dictionary of the file;
    - layerinfo.plist: [color] (the string of [Color::to_rgba_string], C02's three-decimal colour
      text) and [lib], each present iff given, keys sorted; read with unknown keys ignored, the
      colour through [Color::from_str];
    - groups.plist: BTreeMap name -> array of names, names through [Name]'s deserialiser;
    - kerning.plist: name -> name -> number, a number written as <integer> when it equals its
      rounding and lies in the i32 range and as <real> otherwise (cf70ca2), either read as f64
      ([C01_kerning_number_examples]).
    Lib values are compared as maps: the order of the keys of a dictionary reached through
    dictionaries only is not observable ([C01_plist_equality_is_map_equality]; these are the
    dictionaries the writer's recursive sort reorders; below an array the key order is kept by
    writer and reader and compared exactly); decided by the normal form [nf], which on every
    real dictionary is the recursive key sort the writer applies
    ([C01_normal_form_is_recursive_key_sort]).

    PROVED: [codecs_ok] of this instance ([C01_all_files_lawful]), so the round trip needs

    Hypotheses that remain:
    - [L1_glif]: the std text facts (f64 Display / from_str on finite numbers, the {:.3} colour
      channel, {:04X}, the plist integer text) — the L1 list of C02_roundtrip;
    - [forall v, to_bits (of_bits v) = v]: f64::from_bits(v).to_bits() == v (the kerning maps of
      Model/Groups.v hold numbers by their bit pattern);
    - [font_valid]: the domain.  Besides the glyph domain [wf_glyph] and the font-info domain
      [wf_sinfo] (see C01_roundtrip_real) it now reads, for the plist files: lib values (font lib,
      layer libs, guideline libs) the plist writer represents — finite reals, integers within
      i64/u64, bytes, well-shaped dates, no repeated key ([wf_pv_real]); layer colours in 0..1 that
      are fixed points of the three-decimal rendering ([wf_color_real]; as for glyph colours);
      groups and kerning in BTreeMap order with valid names ([wf_groups], [wf_kerning]); kerning
      numbers finite and not the negative zero, which is written as the integer 0 ([wf_num]);
      glyphs of a layer in name order ([wf_ct]).
    Inhabited: [C01_all_files_domains_inhabited]. *)
Theorem C01_all_files_lawful : forall pf ff ff3 fi fh to_bits of_bits lw,
  L1_glif pf ff ff3 fi fh -> (forall v, to_bits (of_bits v) = v) ->
  codecs_ok (all_files pf ff ff3 fi to_bits of_bits lw).
Proof. exact all_files_lawful. Qed.
Theorem C01_roundtrip_real_all_files : forall pf ff ff3 fi fh to_bits of_bits lw,
  L1_glif pf ff ff3 fi fh -> (forall v, to_bits (of_bits v) = v) ->
  forall o (f : font (real_sig pf ff ff3 fi fh (all_files pf ff ff3 fi to_bits of_bits lw))),
  font_valid (real_sig pf ff ff3 fi fh (all_files pf ff ff3 fi to_bits of_bits lw)) f ->
  exists t, save (real_sig pf ff ff3 fi fh (all_files pf ff ff3 fi to_bits of_bits lw)) o f = Ok t /\
            spec_write (real_sig pf ff ff3 fi fh (all_files pf ff ff3 fi to_bits of_bits lw)) norad_choices o f = Some t /\
            exists f', load (real_sig pf ff ff3 fi fh (all_files pf ff ff3 fi to_bits of_bits lw)) t = Ok f' /\
                       font_equiv (real_sig pf ff ff3 fi fh (all_files pf ff ff3 fi to_bits of_bits lw)) f f'.
Proof. exact roundtrip_all_files. Qed.
(** the four remaining files as an instance of the reduced record of the previous block *)
Theorem C01_files4_lawful : forall pf ff ff3 fi fh to_bits of_bits lw,
  L1_glif pf ff ff3 fi fh -> (forall v, to_bits (of_bits v) = v) ->
  codecs4_ok (files4 pf ff ff3 fi to_bits of_bits lw).
Proof. exact files4_ok. Qed.
(** what the equality of lib values is *)
Theorem C01_plist_equality_is_map_equality : forall a b : dict,
  pv_eqv (PDict a) (PDict b) <-> (forall k, orel pv_eqv (alookup k a) (alookup k b)).
Proof. intros a b. rewrite <- pd_eq_orel. split; [apply pv_eqv_dicts|apply pd_eq_dicts]. Qed.
Theorem C01_normal_form_is_recursive_key_sort : forall v, pv_good 0 v = true -> nf v = sort_keys_rec_pv v.
Proof. exact (nf_sort 0). Qed.
Theorem C01_kerning_number_roundtrip : forall x, wf_num x ->
  pv_good 0 (num_pv x) = true /\ pv_num (num_pv x) = Some x.
Proof. exact num_rt. Qed.
Example C01_kerning_number_examples :
  num_pv (FFin true 5 3) = PInt (-40) /\ num_pv (FFin true 1 31) = PInt (- 2 ^ 31) /\
  num_pv (FFin false 27 (-1)) = PReal (FFin false 27 (-1)) /\ num_pv (FFin false 1 31) = PReal (FFin false 1 31) /\
  pv_num (PInt (-40)) = Some (FFin true 5 3).
Proof. exact num_examples. Qed.
Example C01_all_files_domains_inhabited :
  wf_lib lib_sample /\ wf_groups groups_sample /\
  (forall pf ff3, wf_li pf ff3 (None, Some lib_sample)) /\
  (forall of_bits v, wf_num (of_bits v) -> wf_kerning of_bits [([65], [([66], v)])]).
Proof. split; [exact lib_sample_wf|split; [exact groups_sample_wf|split; [exact li_sample_wf|exact kerning_sample_wf]]]. Qed.
(** ... jointly: a font with a non-default font info (two guidelines, one carrying a lib), a font
    lib with nested dictionaries, groups, and a default layer with a layer lib and the sample glyph
    is in the domain of C01_roundtrip_real_all_files whatever the library functions are *)
Example C01_all_files_sample_font_valid : forall pf ff ff3 fi fh to_bits of_bits lw,
  font_valid _ (sample_font pf ff ff3 fi fh to_bits of_bits lw).
Proof. exact sample_font_valid. Qed.

(** ---------- fontinfo.plist: the on-disk shape ----------
    Model/FontInfoFile.v is a schema-directed plist codec: a schema lists, for every key of a record,
    the schema of the value and the flags of the Rust field — [opt] (an [Option]: written iff Some,
    a missing key read as None), [skip] (skip_serializing_if = "Vec::is_empty": an empty list is
    not written), [dflt] (#[serde(default)]: a missing key read as the default) — plus
    deny_unknown_fields; leaves are strings, booleans, machine integers with their range, f64
    written integer-or-real or always <real>, enums as integers or strings, lists, fixed-length
    sequences.  [write_s] / [read_s] are what serde's derived impls do with a plist.

    PROVED, by induction on the schema: when the writer's and the reader's flags agree
    ([schema_rt_ok]: every field the writer may leave out is one the reader fills in with the same
    value, keys distinct, integer ranges within a plist integer) every well-typed value is read
    back from what is written for it ([C01_schema_roundtrip]) and what is written is a value the
    tree-level plist writer represents, so the round trip holds down to the XML tree
    ([C01_fontinfo_file_roundtrip], under the L1 number-text facts).  The flags matter: an empty
    list skipped by the writer of a field the reader requires is not read back
    ([C01_schema_flags_matter]).

    ANCHORED: [font_info_schema] (Model/FontInfoSchema.v) — all fields of `FontInfo`, guidelines,
    gasp range records, name records, OS/2 family class and Panose, the WOFF metadata structs, the
    enums — is extracted from src/fontinfo.rs / src/guideline.rs on every run and compared with the
    constant; [schema_rt_ok] of the extracted schema is recomputed (Anchors/AnchorsOK_C01.v).
    TIED: every fontinfo.plist norad wrote (C01) or loaded (C04) in a sample of the correspondence
    cases is compared at tree level with [write_s font_info_schema] / [read_s font_info_schema].
    NOT connected yet: [P_info_real] of the font-level theorems still carries only the validated
    fields of C13; string leaves with their own validation (guideline name / colour / identifier) are
    plain strings here; [FontInfo::validate] is C13's subject. *)
Theorem C01_schema_roundtrip : forall s, schema_rt_ok s = true ->
  forall v, wt s v = true -> read_s s (write_s s v) = Some v.
Proof. exact schema_roundtrip. Qed.
Theorem C01_schema_written_is_writable : forall s, schema_rt_ok s = true ->
  forall v, wt s v = true -> pv_good 0 (write_s s v) = true.
Proof. exact write_good. Qed.
Theorem C01_schema_flags_matter :
  schema_rt_ok bad_schema = false /\
  wt bad_schema (VRec [VList []]) = true /\
  read_s bad_schema (write_s bad_schema (VRec [VList []])) = None /\
  schema_rt_ok good_schema = true /\
  read_s good_schema (write_s good_schema (VRec [VList []])) = Some (VRec [VList []]).
Proof. exact skip_without_default_refuted. Qed.
Theorem C01_fontinfo_schema_roundtrip : forall v, wt font_info_schema v = true ->
  read_s font_info_schema (write_s font_info_schema v) = Some v.
Proof. exact font_info_roundtrip. Qed.
Theorem C01_fontinfo_file_roundtrip : forall pf ff fi,
  (forall x, fl_finite x = true -> pf (ff x) = Some x) ->
  (forall z, int_ok z = true -> plist_int (fi z) = Some z) ->
  forall v, wt font_info_schema v = true ->
  obind (plist_value pf (plist_tree ff fi (write_s font_info_schema v))) (read_s font_info_schema) = Some v.
Proof. exact fontinfo_file_roundtrip. Qed.
Theorem C01_fontinfo_file_part_lawful : forall pf ff fi,
  (forall x, fl_finite x = true -> pf (ff x) = Some x) ->
  (forall z, int_ok z = true -> plist_int (fi z) = Some z) ->
  forall O, part_ok (P_fontinfo_file pf ff fi O).
Proof. exact fontinfo_file_part_ok. Qed.

(** ---------- fontinfo.plist: file shape and rules composed ----------
    Model/FontInfoView.v gives the view [raw_of_sval] of a schema value as C13's record [FI.raw] (what
    the hand-written deserialisers and FontInfo::validate look at: guideline shapes and angles, gasp
    records, OS/2 selection / family class / Panose / width class, character set, u32 fields,
    unitsPerEm, the lengths of the blue / stem lists and of the WOFF metadata lists, the creation
    date) and composes reader and writer of the file from both layers:
      load_info_file = plist tree -> read_s font_info_schema -> FI.fi_load on the view;
      save_info_file = FI.fi_save on the view (validate, serialiser's angle test) -> tree of write_s.
    PROVED: a well-typed value whose view [validate] and the serialiser accept is written, and what
    is written is loaded as the same value with the same view ([C01_fontinfo_value_roundtrip]); the
    part [P_info_file] with the plist tree as file content is lawful ([C01_info_file_part_lawful]);
    its domain is inhabited ([C01_info_file_domain_inhabited]).  Hypotheses: the two number-text
    facts of L1 (H_ff, H_fi).
    TIED: for every fontinfo.plist compared in the C01 / C04 runs the view of the value must pass
    [FI.fi_load], as norad loaded that file (code 6 of Run/FontFiles.v).
    What separates this from fontinfo.plist being the eighth tree-level file of the all-files
    theorems: the font-level signature splits the info into (everything but guidelines, guidelines
    with identifiers, libs through lib.plist); [P_info_file] carries the whole record as one
    value, and the laws of the signature about that split (info_ok_stripped, the default value,
    identifiers kept by the equality, closedness of the reader — which fails for non-canonical
    numbers exactly as for kerning) are not instantiated for it.  The all-files theorems therefore
    still read and write fontinfo.plist through [P_info_real] (C13's [FI.raw] as file content). *)
Theorem C01_fontinfo_value_roundtrip : forall pf ff fi,
  (forall x, fl_finite x = true -> pf (ff x) = Some x) ->
  (forall z, int_ok z = true -> plist_int (fi z) = Some z) ->
  forall v i,
  wt font_info_schema v = true -> FI.decode (raw_of_sval v) = Some i -> FI.fi_save i = Ok i ->
  exists n, save_info_file ff fi v = Some n /\ load_info_file pf n = Some v /\
            FI.fi_load (raw_of_sval v) = Ok i.
Proof. exact fontinfo_value_roundtrip. Qed.
Theorem C01_info_file_part_lawful : forall pf ff fi,
  (forall x, fl_finite x = true -> pf (ff x) = Some x) ->
  (forall z, int_ok z = true -> plist_int (fi z) = Some z) ->
  forall O, part_ok (P_info_file pf ff fi O).
Proof. exact info_file_part_ok. Qed.
Example C01_info_file_domain_inhabited : info_value_ok sval_none.
Proof. exact sval_none_ok. Qed.
