(** C01 — saving a font and loading it back preserves all font data.
    Statements only; proofs live in Proofs/FontRTP.v and Proofs/FontToyP.v.

    For ALL signatures [S] with the laws [sig_ok S] (see Model/FontRT.v; discharged part by part
    by C02 (glif), C13/C14 (font info, numbers), C15 (groups, kerning), and the L1 plist / XML
    hypotheses), ALL fonts and ALL write options.  [font_valid] is UFO 3 validity: format 3,
    every part valid for its writer (the complement of the known-finding classes of the part
    owners), no user-supplied [public.objectLibs], guideline libs only with identifiers, distinct
    identifiers, first layer in [glyphs] and nobody else, distinct layer directories and glif file
    names.  [font_equiv] is the equality of the property: everything but the creator, numbers /
    colours under the part equalities, feature text up to line endings, stores byte-identical. *)
Require Import Norad.Model.Base Norad.Model.FontRT Norad.Model.FontToy Norad.Model.FontNum
               Norad.Proofs.FontRTP Norad.Proofs.FontToyP Norad.Proofs.FontNumP.
Open Scope N_scope.

Theorem C01_roundtrip : forall (S : sig), sig_ok S -> forall o (f : font S),
  font_valid S f ->
  exists t, save S o f = Ok t /\ exists f', load S t = Ok f' /\ font_equiv S f f'.
Proof.
  intros S OK o f Hv. destruct (save_load_roundtrip S OK o f Hv) as (t & H1 & _ & H2). eauto.
Qed.

(** the write options (indent character and width, quote style) never matter *)
Theorem C01_options_irrelevant : forall (S : sig), sig_ok S -> forall o1 o2 (f : font S),
  font_valid S f ->
  exists t1 t2 f1 f2, save S o1 f = Ok t1 /\ save S o2 f = Ok t2 /\
                      load S t1 = Ok f1 /\ load S t2 = Ok f2 /\ font_equiv S f1 f2.
Proof. exact options_irrelevant. Qed.

(** which optional files exist after a save: exactly as coded (fontinfo.plist iff the info is not
    the default; lib.plist iff the lib is non-empty or some guideline has a lib; groups / kerning
    iff non-empty; features.fea iff the text is non-empty; layerinfo.plist iff a colour or a
    non-empty lib — so a colour-only layer keeps its file; store directories iff non-empty;
    metainfo, layercontents and every contents.plist always) ... *)
Theorem C01_optional_files_gating : forall (S : sig), sig_ok S -> forall o (f : font S) (t : tree S),
  font_valid S f -> save S o f = Ok t ->
  t_meta S t <> None /\ t_lcontents S t <> None /\
  (t_info S t = None <-> info_is_default S (f_info S f) = true) /\
  (t_lib S t = None <-> d_is_empty S (f_lib S f) = true /\
                        Forall (fun g => g_lib g = None) (guides_of S (f_info S f))) /\
  (t_groups S t = None <-> groups_is_empty S (f_groups S f) = true) /\
  (t_kerning S t = None <-> kerning_is_empty S (f_kerning S f) = true) /\
  (t_features S t = None <-> f_features S f = []) /\
  (t_data S t = None <-> f_data S f = []) /\ (t_images S t = None <-> f_images S f = []) /\
  Forall2 (layer_gating S) (f_layers S f) (t_dirs S t).
Proof. exact gating_sound. Qed.

(** ... and a file that is absent is read as the default value of its part, so skipping is sound:
    a skipped part is exactly a part that load defaults to the same value *)
Theorem C01_optional_files_gating_sound : forall (S : sig), sig_ok S ->
  forall (t : tree S) (f : font S) mc m,
  load S t = Ok f -> t_meta S t = Some mc -> dec (P_meta S) mc = Some m -> m_version m = 3 ->
  (t_info S t = None -> f_info S f = info_dflt S) /\
  (t_lib S t = None -> f_lib S f = d_empty S) /\
  (t_groups S t = None -> f_groups S f = groups_dflt S) /\
  (t_kerning S t = None -> f_kerning S f = kerning_dflt S) /\
  (t_features S t = None -> f_features S f = []) /\
  (t_data S t = None -> f_data S f = []) /\ (t_images S t = None -> f_images S f = []) /\
  (forall l d, In l (f_layers S f) -> alookup (l_dir l) (t_dirs S t) = Some d -> ld_info S d = None ->
               l_color l = None /\ l_lib l = d_empty S).
Proof. exact load_defaults. Qed.

(** feature text: what is written equals the text up to line endings; one pass of the writer's
    replacement is not idempotent (CR CR LF -> CR LF -> LF), which is why the equality is the
    normal form *)
Theorem C01_features_line_endings : forall t, feq t (features_to_write t).
Proof. exact feq_features_to_write. Qed.
Theorem C01_features_replace_not_idempotent :
  replace_crlf (replace_crlf [CR; CR; LF]) <> replace_crlf [CR; CR; LF].
Proof. exact replace_crlf_not_idempotent. Qed.

(** save refuses exactly: a format other than 3, a user-supplied public.objectLibs (before
    anything is written) *)
Theorem C01_save_refuses : forall (S : sig) o (f : font S),
  (m_version (f_meta S f) <> 3 -> save S o f = Err SDowngrade) /\
  (m_version (f_meta S f) = 3 -> d_get S OBJ (f_lib S f) <> None -> save S o f = Err SPreexistingObjectLibs).
Proof. exact save_refuses. Qed.

(** Numbers: the three integer-or-float writers replace [v] by an integer [t] only when
    |v - t| <= 2^-52.  The written value is within the property's tolerance (1e-9 relative) exactly
    outside the class "a non-zero number written as 0"; the class is inhabited (2^-60), so the full
    statement "every number survives within 1e-9" is refuted for the writers as they are. *)
Theorem C01_written_integer_within_tolerance_iff : forall (v : Q) (t : Z),
  written_as_integer v t -> (within v (inject_Z t) <-> ~ KnownClass_flush_to_zero v t).
Proof. exact written_within_iff. Qed.
Definition C01_numbers_full : Prop := forall (v : Q) (t : Z), written_as_integer v t -> within v (inject_Z t).
Theorem C01_refuted_flush_to_zero : ~ C01_numbers_full.
Proof.
  intros H. destruct flush_to_zero_witness as [H1 H2]. apply H2. apply H. exact H1.
Qed.

(** Non-vacuity: the laws have a model; the example font is valid and its saved tree is exactly
    these files; the empty font is valid and saves three files. *)
Example C01_laws_satisfiable : sig_ok toy_sig.
Proof. exact toy_ok. Qed.
Example C01_valid_font : font_valid toy_sig toy_font /\ font_valid toy_sig toy_empty.
Proof. split; [exact toy_font_valid|exact toy_empty_valid]. Qed.
Example C01_example_file_set :
  exists t, save toy_sig 0 toy_font = Ok t /\
    paths_of toy_sig norad_names t =
      [[s "metainfo.plist"]; [s "fontinfo.plist"]; [s "lib.plist"]; [s "groups.plist"]; [s "features.fea"];
       [s "layercontents.plist"]; [s "glyphs"; s "contents.plist"]; [s "glyphs"; s "layerinfo.plist"];
       [s "glyphs"; s "a.glif"]; [s "glyphs"; s "B_.glif"]; [s "glyphs.bg"; s "contents.plist"];
       [s "glyphs.bg"; s "layerinfo.plist"]; [s "data"; s "d"; s "e.bin"]].
Proof. eexists. split; vm_compute; reflexivity. Qed.
Example C01_empty_font_file_set :
  exists t, save toy_sig 0 toy_empty = Ok t /\
    paths_of toy_sig norad_names t = [[s "metainfo.plist"]; [s "layercontents.plist"]; [s "glyphs"; s "contents.plist"]].
Proof. eexists. split; vm_compute; reflexivity. Qed.
