(** C12 — glif structure rules. Statements only (under construction). *)
Require Import Norad.Model.GlifParse.
Example C12_placeholder : ekind_of (s2l "glyph") = Some KGlyph.
Proof. reflexivity. Qed.
