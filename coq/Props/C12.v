(** C12 — glif documents breaking the structure rules are rejected, legal ones accepted.
    Statements only; proofs live in Proofs/GlifParseP.v and Proofs/GlifSpecP.v.

    [parse_glif pf d] is the model of GlifParser::from_xml on the event tree [d] (Model/GlifParse.v);
    [pf] stands for std's f64::from_str and is universally quantified (nothing is assumed of it).
    [glif_ok pf d] is the declarative rule predicate (Model/GlifSpec.v), [glyph_rules g] the rules
    on glyph values, F14 / F16 / F17 the structurally described classes of known deviations. *)
Require Import Norad.Model.GlifSpec Norad.Proofs.GlifParseP Norad.Proofs.GlifSpecP Norad.Proofs.GlifCompleteP.
Open Scope N_scope.

(** ---------- soundness of acceptance ---------- *)
(** Every accepted document outside F16 obeys every rule; the returned glyph obeys the glyph
    rules (valid names, colours, angles, legal non-empty contours, identifiers unique over all five
    object kinds, object libs only on identified objects) and [public.objectLibs] is no key of its lib. *)
Theorem C12_sound : forall pf d g,
  parse_glif pf d = Ok g -> ~ F16 d ->
  glif_ok pf d /\ glyph_rules g /\ lookup objlibs_key (glib g) = None.
Proof. exact parse_sound. Qed.

(** The full-strength statement (no class hypothesis) does not hold of the reader as it is. *)
Definition C12_sound_full : Prop := forall pf d g, parse_glif pf d = Ok g -> glif_ok pf d.

(** numbers of the witnesses *)
Definition pf0 (s : str) : option fl :=
  lookup s [ (s2l "0", f0); (s2l "1", f1); (s2l "2", FFin false 1 1); (s2l "500", FFin false 125 2);
             (s2l "45", FFin false 45 0); (s2l "360", f360); (s2l "-1", FFin true 1 0) ].
Definition glyph_doc (ver : string) (kids : list node) : doc :=
  [Decl; Elem (s2l "glyph") [(s2l "name", s2l "a"); (s2l "format", s2l ver)] kids].
Definition E_ (name : string) (a : list (string * string)) : node :=
  Empty (s2l name) (map (fun kv => (s2l (fst kv), s2l (snd kv))) a).
Definition S_ (name : string) (a : list (string * string)) (kids : list node) : node :=
  Elem (s2l name) (map (fun kv => (s2l (fst kv), s2l (snd kv))) a) kids.
Open Scope string_scope.

(** F16: the rule-breaking documents the reader still accepts — a child element inside <note>. *)
Definition F16_witnesses : list doc :=
  [ glyph_doc "2" [S_ "note" [] [Text (s2l "x"); S_ "b" [] [Text (s2l "in")]]];
    glyph_doc "2" [S_ "note" [] [E_ "br" []]] ].
(** documents of the former F16 sub-classes, repaired in the reader (ea3d494, fd4434a, 764fdf7,
    c12bec3): a <unicode/> without hex; an attribute on <outline>; two notes; the identifier of a
    self-closing contour repeated on an anchor; an identifier on a self-closing contour in format 1 *)
Definition repaired_F16_documents : list doc :=
  [ glyph_doc "2" [E_ "unicode" []];
    glyph_doc "2" [S_ "outline" [("bogus", "1")] []];
    glyph_doc "2" [S_ "note" [] []; S_ "note" [] [Text (s2l "second")]];
    glyph_doc "2" [S_ "outline" [] [E_ "contour" [("identifier", "i1")]];
                   E_ "anchor" [("x", "1"); ("y", "2"); ("identifier", "i1")]];
    glyph_doc "1" [S_ "outline" [] [E_ "contour" [("identifier", "i1")]]] ].
Example C12_repaired_F16_rejected :
  forallb (fun w => negb (accepts pf0 w) && negb (glif_okb pf0 w)) repaired_F16_documents = true.
Proof. vm_compute. reflexivity. Qed.
(** names are compared whole: a namespace-style prefix, another letter case or an affix makes an
    element or attribute unknown (the qualified name includes the prefix; declaring the prefix on
    <glyph> is itself an unknown attribute).  Regression inputs for the seeded change C12-d. *)
Definition lookalike_documents : list doc :=
  [ glyph_doc "2" [S_ "outline" [] [S_ "contour" [] [E_ "point" [("x", "0"); ("y", "0"); ("type", "line")];
                                                      E_ "ext:point" [("x", "1"); ("y", "1"); ("type", "line")]]]];
    glyph_doc "1" [S_ "outline" [] [S_ "contour" [] [E_ "x:point" [("x", "1"); ("y", "2"); ("type", "move"); ("name", "top")]]]];
    glyph_doc "2" [S_ "outline" [] [S_ "contour" [] [E_ "Point" [("x", "0"); ("y", "0"); ("type", "line")]]]];
    glyph_doc "2" [S_ "outline" [] [S_ "contour" [] [E_ "point" [("x", "0"); ("y", "0"); ("p:x", "0")]]]];
    glyph_doc "2" [S_ "outline" [] [S_ "p:contour" [] []]];
    glyph_doc "2" [S_ "outline" [] [E_ "component2" [("base", "a")]]];
    glyph_doc "2" [E_ "p:advance" [("width", "500")]];
    glyph_doc "2" [E_ "Advance" [("width", "500")]];
    glyph_doc "2" [E_ "advance" [("Width", "500")]];
    glyph_doc "2" [S_ "p:outline" [] []];
    glyph_doc "2" [S_ "p:note" [] [Text (s2l "x")]];
    [Decl; S_ "glyph" [("name", "a"); ("format", "2"); ("xmlns:p", "http://example.com/ns")] []];
    [Decl; S_ "p:glyph" [("name", "a"); ("format", "2")] []] ].
Example C12_lookalike_names_rejected :
  forallb (fun w => negb (accepts pf0 w) && negb (glif_okb pf0 w)) lookalike_documents = true.
Proof. vm_compute. reflexivity. Qed.
Theorem C12_F16_witnesses :
  Forall (fun w => (exists g, parse_glif pf0 w = Ok g) /\ ~ glif_ok pf0 w /\ F16 w) F16_witnesses.
Proof. apply witness_sound. vm_compute. reflexivity. Qed.
Theorem C12_sound_refuted_F16 : ~ C12_sound_full.
Proof.
  intros H. pose proof C12_F16_witnesses as W. inversion W as [|w ws [[g E] [NG _]] _]; subst.
  apply NG. eapply H. exact E.
Qed.

(** ---------- completeness of acceptance ---------- *)
(** Every rule-obeying document outside the two surface classes is accepted. *)
Theorem C12_complete : forall pf d,
  glif_ok pf d -> ~ F14 d -> ~ F17 d -> exists g, parse_glif pf d = Ok g.
Proof. exact parse_complete. Qed.

(** Outside the classes the reader accepts exactly the rule-obeying documents. *)
Theorem C12_accepts_iff_ok : forall pf d,
  ~ F14 d -> ~ F16 d -> ~ F17 d -> ((exists g, parse_glif pf d = Ok g) <-> glif_ok pf d).
Proof.
  intros pf d N14 N16 N17. split; [intros [g H]; apply (parse_sound pf d g H N16)|].
  intros H. apply parse_complete; assumption.
Qed.

(** The full-strength statement (no class hypothesis) does not hold of the reader as it is:
    it rejects legal surface forms (F14, F17). *)
Definition C12_complete_full : Prop := forall pf d, glif_ok pf d -> exists g, parse_glif pf d = Ok g.

(** F14: a leaf element written with start and end tag; a self-closing note; a comment inside the
    glyph.  F17: a note in format 1; a DOCTYPE; a self-closing glyph. *)
Definition F14_witnesses : list doc :=
  [ glyph_doc "2" [S_ "advance" [("width", "500")] []];
    glyph_doc "2" [E_ "note" []];
    glyph_doc "2" [Comment (s2l " c "); E_ "advance" [("width", "500")]];
    glyph_doc "2" [S_ "outline" [] [S_ "contour" [] [S_ "point" [("x", "1"); ("y", "2"); ("type", "line")] []]]] ].
Definition F17_witnesses : list doc :=
  [ glyph_doc "1" [S_ "note" [] [Text (s2l "hello")]];
    [Decl; DocType (s2l "glyph"); S_ "glyph" [("name", "a"); ("format", "2")] []];
    [Decl; E_ "glyph" [("name", "a"); ("format", "2")]] ].
Theorem C12_F14_witnesses :
  Forall (fun w => glif_ok pf0 w /\ (forall g, parse_glif pf0 w <> Ok g) /\ F14 w) F14_witnesses.
Proof. apply (witness_complete pf0 f14b F14 _ f14b_spec). vm_compute. reflexivity. Qed.
Theorem C12_F17_witnesses :
  Forall (fun w => glif_ok pf0 w /\ (forall g, parse_glif pf0 w <> Ok g) /\ F17 w) F17_witnesses.
Proof. apply (witness_complete pf0 f17b F17 _ f17b_spec). vm_compute. reflexivity. Qed.
Theorem C12_complete_refuted_F14 : ~ C12_complete_full.
Proof.
  intros H. pose proof C12_F14_witnesses as W. inversion W as [|w ws [G [N _]] _]; subst.
  destruct (H _ _ G) as [g E]. exact (N g E).
Qed.
Theorem C12_complete_refuted_F17 : ~ C12_complete_full.
Proof.
  intros H. pose proof C12_F17_witnesses as W. inversion W as [|w ws [G [N _]] _]; subst.
  destruct (H _ _ G) as [g E]. exact (N g E).
Qed.

(** ---------- identifiers ---------- *)
(** The identifiers of a returned glyph are pairwise distinct across anchors, guidelines,
    contours, points and components ([glyph_ids] concatenates all five kinds). *)
Theorem C12_ids_unique_across_kinds : forall pf d g,
  parse_glif pf d = Ok g -> NoDup (glyph_ids g).
Proof. intros pf d g H. destruct (parse_rules pf d g H) as (GR & _). apply GR. Qed.

(** Every returned glyph satisfies the glyph rules and has no [public.objectLibs] key — for every
    document, inside or outside the classes. *)
Theorem C12_returned_glyph_rules : forall pf d g,
  parse_glif pf d = Ok g -> glyph_rules g /\ lookup objlibs_key (glib g) = None.
Proof. exact parse_rules. Qed.

(** ---------- format 1 ---------- *)
(** An accepted format-1 document contains no image, anchor or guideline element, no identifier
    attribute anywhere, and no attribute at all on its contours. *)
Theorem C12_v1_gating : forall pf d g root,
  parse_glif pf d = Ok g -> ~ F16 d ->
  root_of d = Some root -> version_of (attrs_of root) = Some 1 ->
  let kids := sig_kids (kids_of root) in
  (forall n, In n kids -> is_kind KImage n = false /\ is_kind KAnchor n = false /\
                          is_kind KGuideline n = false) /\
  doc_ids kids = [] /\
  (forall o c, In o kids -> is_kind KOutline o = true -> In c (sig_kids (kids_of o)) ->
               is_kind KContour c = true -> attrs_of c = []).
Proof. exact v1_gating. Qed.

(** The format-1 upgrade: exactly the contours that consist of one named move point become
    anchors (position and name kept, no colour, identifier or lib), in order; all others stay. *)
Theorem C12_v1_anchor_upgrade : forall cs,
  v1_split cs =
  (flat_map (fun c => match v1_anchor c with Some a => [a] | None => [] end) cs,
   filter (fun c => match v1_anchor c with Some _ => false | None => true end) cs).
Proof. exact v1_split_exact. Qed.
Theorem C12_v1_anchor_shape : forall c a,
  v1_anchor c = Some a <->
  exists p n, cpoints c = [p] /\ ptyp p = Move /\ pname p = Some n /\
              a = mkAnchor (px p) (py p) (Some n) None None None.
Proof. exact v1_anchor_exact. Qed.

(** ---------- the executable predicates of the correspondence run decide the specification ---------- *)
Theorem C12_okb_decides : forall pf d, glif_okb pf d = true <-> glif_ok pf d.
Proof. exact glif_okb_spec. Qed.
Theorem C12_classes_decided : forall d,
  (f14b d = true <-> F14 d) /\ (f16b d = true <-> F16 d) /\ (f17b d = true <-> F17 d).
Proof. intros d. split; [apply f14b_spec|split; [apply f16b_spec|apply f17b_spec]]. Qed.

(** ---------- non-vacuity ---------- *)
(** a rule-obeying format-2 document with every element kind, outside all classes, is accepted *)
Definition rich_doc : doc :=
  glyph_doc "2"
    [ E_ "unicode" [("hex", "0041")]; E_ "advance" [("width", "500")];
      E_ "image" [("fileName", "a.png"); ("xScale", "2")];
      S_ "outline" []
        [ S_ "contour" [("identifier", "c1")]
            [ E_ "point" [("x", "0"); ("y", "0"); ("type", "line"); ("identifier", "p1")];
              E_ "point" [("x", "1"); ("y", "2")]; E_ "point" [("x", "2"); ("y", "1"); ("type", "qcurve")] ];
          E_ "component" [("base", "b"); ("identifier", "k1")] ];
      E_ "anchor" [("x", "1"); ("y", "2"); ("name", "top"); ("identifier", "a1")];
      E_ "guideline" [("x", "1"); ("y", "2"); ("angle", "360"); ("identifier", "g1")];
      S_ "lib" [] [S_ "dict" [] [S_ "key" [] [Text (s2l "public.objectLibs")];
                                 S_ "dict" [] [S_ "key" [] [Text (s2l "a1")]; E_ "dict" []]]];
      S_ "note" [] [Text (s2l " hi ")] ].
Example C12_sound_nonvacuous :
  (exists g, parse_glif pf0 rich_doc = Ok g) /\
  ~ F16 rich_doc /\ ~ F14 rich_doc /\ ~ F17 rich_doc /\ glif_ok pf0 rich_doc.
Proof.
  split; [apply accepts_spec; vm_compute; reflexivity|].
  split; [intros H; apply f16b_spec in H; vm_compute in H; discriminate|].
  split; [intros H; apply f14b_spec in H; vm_compute in H; discriminate|].
  split; [intros H; apply f17b_spec in H; vm_compute in H; discriminate|].
  apply glif_okb_spec. vm_compute. reflexivity.
Qed.
(** ... and the returned glyph has five identified objects, the anchor carrying its object lib *)
Example C12_rich_doc_result :
  match parse_glif pf0 rich_doc with
  | Ok g => List.length (glyph_ids g) = 5%nat /\
            match ganchors g with [a] => alib a = Some [] | _ => False end /\
            lookup objlibs_key (glib g) = None
  | _ => False
  end.
Proof. vm_compute. repeat split; reflexivity. Qed.
(** the identifier rule spans kinds: the same identifier on a point and on a guideline is rejected *)
Example C12_duplicate_across_kinds_rejected :
  parse_glif pf0
    (glyph_doc "2"
       [ S_ "outline" [] [S_ "contour" [] [E_ "point" [("x", "0"); ("y", "0"); ("type", "line"); ("identifier", "i")]]];
         E_ "guideline" [("x", "1"); ("identifier", "i")] ])
  = Err EDuplicateIdentifier.
Proof. vm_compute. reflexivity. Qed.
(** a format-1 document whose outline holds a named move point and a real contour *)
Example C12_v1_upgrade_example :
  match parse_glif pf0
      (glyph_doc "1"
         [ S_ "outline" []
             [ S_ "contour" [] [E_ "point" [("x", "1"); ("y", "2"); ("type", "move"); ("name", "top")]];
               S_ "contour" [] [E_ "point" [("x", "0"); ("y", "0"); ("type", "line")]] ] ]) with
  | Ok g => ganchors g = [mkAnchor f1 (FFin false 1 1) (Some (s2l "top")) None None None] /\
            List.length (gcontours g) = 1%nat
  | _ => False
  end.
Proof. vm_compute. split; reflexivity. Qed.
