(** placeholder while the pipeline is brought up *)
Require Import Norad.Model.Designspace.
Theorem C18_placeholder : True.
Proof. exact I. Qed.
