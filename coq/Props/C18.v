(** C18 — saving and loading a designspace document preserves it.
    Statements only; proofs live in Proofs/DesignspaceP.v and Proofs/DsXmlP.v.

    [L : l1] bundles the library behaviour that is not modelled (f32/f64 printing and parsing,
    plist date text, base64); [l1_ok L] are the L1 hypotheses: print-then-parse is the identity,
    a printed f32 is a non-empty text without a blank, the other printed texts do not start or
    end with XML white space.  They are validated differentially on every run, never proved. *)
Require Import Norad.Model.Designspace Norad.Proofs.DsXmlP Norad.Proofs.DesignspaceP.
Require Import Norad.Model.DsSchema Norad.Proofs.DsSchemaP.
Open Scope string_scope.

(** The full-strength statement: every well-formed document survives save + load.  [ds_wf] is
    the property's well-formedness (at least one axis and one source, non-empty locations, rules
    with condition sets and substitutions), the type invariants of the Rust values (unique
    dictionary keys, integers in range, valid glyph names in substitutions) and the two facts the
    file format cannot express: an axis map is absent or non-empty; an empty rule list comes
    with the default processing mode. *)
Definition C18_full : Prop :=
  forall L, l1_ok L -> forall d : doc L, ds_wf L d -> ds_decode L (ds_encode L d) = Some d.

(** It does not hold for the code as it is: a lib string with a leading blank comes back
    without it (quick-xml's deserializer trims element text). *)
Theorem C18_refuted_lib_edge_whitespace : ~ C18_full.
Proof. intros H. exact (toy_doc_not_preserved (H toy toy_ok (toy_doc " a") (toy_doc_wf " a"))). Qed.

(** The positive theorem, for ALL documents: outside the known class (a lib string or key, at
    any depth, in the document lib or an instance lib, that starts or ends with XML white
    space) decoding the encoded tree gives the document back. *)
Theorem C18_roundtrip :
  forall L, l1_ok L ->
  forall d : doc L, ds_wf L d -> ~ KnownClass_C18 L d -> ds_decode L (ds_encode L d) = Some d.
Proof. exact decode_encode. Qed.

(** The class is exact, and what comes back instead is known: for EVERY well-formed document,
    decoding the encoded tree gives the document with its lib strings and keys trimmed and its
    dictionaries rebuilt by insertion ([ds_trim]); that is the document itself exactly when it is
    outside the class. *)
Theorem C18_load_save_is_trim :
  forall L, l1_ok L -> forall d : doc L, ds_wf L d -> ds_decode L (ds_encode L d) = Some (ds_trim L d).
Proof. exact decode_encode_gen. Qed.
Theorem C18_class_exact :
  forall L, l1_ok L -> forall d : doc L, ds_wf L d ->
  (ds_decode L (ds_encode L d) = Some d <-> ~ KnownClass_C18 L d).
Proof. exact decode_encode_iff. Qed.

(** The written tree uses the designspace specification's element and attribute names: it is
    the tree of the writer transcribed from the specification, up to the order of attributes
    (which XML does not preserve). No hypothesis. *)
Theorem C18_spec_names :
  forall L (d : doc L), norm_node (ds_encode L d) = norm_node (spec_ds_write L d).
Proof. exact encode_is_spec. Qed.

(** What a conforming XML 1.0 reader finds in the file (only the mark-up characters are escaped
    by the writer): the written tree itself, exactly when no attribute value contains tab, LF
    or CR, no character data contains CR, and no string contains a character XML cannot carry. *)
Theorem C18_reader_sees_tree :
  forall L (d : doc L),
    reader_view (ds_encode L d) = Some (ds_encode L d) <-> node_unclean (ds_encode L d) = false.
Proof. exact reader_class_exact. Qed.

(** The class of strings the deserializer changes is exact. *)
Theorem C18_trim_changes_exactly_edge_ws : forall s, trim s = s <-> edge_ws s = false.
Proof.
  intros s. split; [|apply trim_id].
  intros H. destruct (edge_ws s) eqn:E; [|reflexivity]. now apply trim_changes in E.
Qed.

(** [IntWrapper] reads back every plist integer as printed. *)
Theorem C18_integers : forall z, int_ok z = true -> parse_int (print_int z) = Some z.
Proof. exact parse_print_int. Qed.

(** Non-vacuity: the L1 hypotheses are satisfiable; a document with a discrete hidden axis, a
    map, a rule with an empty condition set, an instance lib and every plist type is well-formed
    and outside the class (so the theorem applies to it), one blank more puts it into the class
    and the round trip then returns the trimmed document. *)
Example C18_hypotheses_satisfiable :
  l1_ok toy /\ ds_wf toy (toy_doc "a b") /\ ~ KnownClass_C18 toy (toy_doc "a b") /\
  ds_decode toy (ds_encode toy (toy_doc "a b")) = Some (toy_doc "a b").
Proof. exact (conj toy_ok (conj (toy_doc_wf "a b") (conj toy_doc_clean toy_doc_preserved))). Qed.
Example C18_class_witness :
  ds_wf toy (toy_doc " a") /\ KnownClass_C18 toy (toy_doc " a") /\
  ds_decode toy (ds_encode toy (toy_doc " a")) = Some (toy_doc "a").
Proof. exact (conj (toy_doc_wf " a") (conj toy_doc_in_class toy_doc_trimmed)). Qed.

(** The vocabulary table that is compared with the source on every run (Anchors/AnchorsOK_C18.v)
    is the vocabulary of the encoder: a document with every optional attribute and element kind
    is written with exactly the names of the table, and is read back. *)
Example C18_vocabulary_is_used :
  same_names (names_of_node (ds_encode toy full_doc)) vocab_names = true /\
  ds_decode toy (ds_encode toy full_doc) = Some full_doc.
Proof. exact (conj full_doc_uses_vocab full_doc_roundtrip). Qed.

(** ** The serde schema table (Model/DsSchema.v; regenerated from the source and re-checked on every
    run in Anchors/AnchorsOK_C18.v).

    The flat attribute codec gives skip_serializing_if / default on attributes their meaning: it
    round-trips whenever every value the writer leaves out is the value the reader supplies for an
    absent attribute and the keys are distinct ... *)
Theorem C18_flags_attr_roundtrip : forall fs vs,
  aflat_ok fs = true -> awt_all fs vs = true -> aread fs (awrite fs vs) = Some vs.
Proof. exact aflat_rt. Qed.
(** ... and not otherwise: skip-if-false with a read default of true loses the value false. *)
Theorem C18_flags_refuted_without_check :
  ~ (forall fs vs, awt_all fs vs = true -> aread fs (awrite fs vs) = Some vs).
Proof. exact flag_check_not_vacuous. Qed.
Example C18_flags_bad_examples :
  aflat_ok bad_flat = false /\
  aread bad_flat (awrite bad_flat [Some "false"; Some "x"]) = Some [Some "true"; Some "x"] /\
  field_verdict ds_helpers bad_field_1 = VBad /\ field_verdict ds_helpers bad_field_2 = VBad /\
  field_verdict ds_helpers bad_field_3 = VNeedNonEmpty.
Proof.
  exact (conj bad_flat_refused (conj (proj2 bad_flat_loses_a_value) bad_fields_flagged)).
Qed.
(** The table of this tree passes the flag check; the hypotheses on values it leaves are the eight
    of [ds_expected_hyps]; the flat views of all structs round-trip. *)
Theorem C18_schema_flags_ok :
  ds_schema_rt_ok ds_helpers ds_schema = true /\ ds_hyps ds_helpers ds_schema = ds_expected_hyps /\
  forallb (fun st => aflat_ok (attr_view st)) ds_schema = true.
Proof. exact (conj ds_schema_ok (conj ds_schema_hyps ds_attr_views_ok)). Qed.
(** [ds_wf] (the hypothesis of C18_roundtrip) is exactly: those eight hypotheses ([ds_flag_hyps], one
    conjunct per table entry) and the type invariants of the Rust values ([ds_type_inv]: valid glyph
    names in substitutions, unique dictionary keys, integers in range). *)
Theorem C18_wf_is_flag_hypotheses_and_type_invariants : forall L (d : doc L),
  ds_wf L d <-> ds_flag_hyps L d = true /\ ds_type_inv L d = true.
Proof. exact ds_wf_is_flags_and_invariants. Qed.
(** The hand-written encoder writes, for every struct, the attributes the table prescribes (the flat
    writer over the table's attribute fields); shown here for Axis, Source, Instance, Dimension. *)
Theorem C18_encoder_attrs_follow_table : forall L,
  (forall a, attrs_of (enc_axis L a) = awrite (attr_view_of "Axis") (axis_vals L a)) /\
  (forall s, attrs_of (enc_source L s) =
             awrite (attr_view_of "Source") [s_familyname L s; s_stylename L s; s_name L s; Some (s_filename L s); s_layer L s]) /\
  (forall i, attrs_of (enc_instance L i) =
             awrite (attr_view_of "Instance")
                    [i_familyname L i; i_stylename L i; i_name L i; i_filename L i; i_postscriptfontname L i;
                     i_stylemapfamilyname L i; i_stylemapstylename L i]) /\
  (forall d, attrs_of (enc_dimension L d) =
             awrite (attr_view_of "Dimension")
                    [Some (d_name L d); option_map (l_f32_print L) (d_uservalue L d);
                     option_map (l_f32_print L) (d_xvalue L d); option_map (l_f32_print L) (d_yvalue L d)]).
Proof.
  intros L. exact (conj (enc_axis_attrs L) (conj (enc_source_attrs L) (conj (enc_instance_attrs L) (enc_dimension_attrs L)))).
Qed.
