(** C18 — saving and loading a designspace document preserves it.
    Statements only; proofs live in Proofs/DesignspaceP.v and Proofs/DsXmlP.v.

    [L : l1] bundles the library behaviour that is not modelled (f32/f64 printing and parsing,
    plist date text, base64); [l1_ok L] are the L1 hypotheses: print-then-parse is the identity,
    a printed f32 is a non-empty text without a blank, the other printed texts do not start or
    end with XML white space.  They are validated differentially on every run, never proved. *)
Require Import Norad.Model.Designspace Norad.Proofs.DsXmlP Norad.Proofs.DesignspaceP.
Open Scope string_scope.

(** The full-strength statement: every well-formed document survives save + load.  [ds_wf] is
    the property's well-formedness (at least one axis and one source, non-empty locations, rules
    with condition sets and substitutions), the type invariants of the Rust values (unique
    dictionary keys, integers in range, valid glyph names in substitutions) and the two facts the
    file format cannot express: an axis map is absent or non-empty; an empty rule list comes
    with the default processing mode. *)
Definition C18_full : Prop :=
  forall L, l1_ok L -> forall d : doc L, ds_wf L d -> ds_decode L (ds_encode L d) = Some d.

(** It does not hold for the code as it is: a lib string with a leading blank comes back
    without it (quick-xml's deserializer trims element text). *)
Theorem C18_refuted_lib_edge_whitespace : ~ C18_full.
Proof. intros H. exact (toy_doc_not_preserved (H toy toy_ok (toy_doc " a") (toy_doc_wf " a"))). Qed.

(** The positive theorem, for ALL documents: outside the known class (a lib string or key, at
    any depth, in the document lib or an instance lib, that starts or ends with XML white
    space) decoding the encoded tree gives the document back. *)
Theorem C18_roundtrip :
  forall L, l1_ok L ->
  forall d : doc L, ds_wf L d -> ~ KnownClass_C18 L d -> ds_decode L (ds_encode L d) = Some d.
Proof. exact decode_encode. Qed.

(** The class is exact, and what comes back instead is known: for EVERY well-formed document,
    decoding the encoded tree gives the document with its lib strings and keys trimmed and its
    dictionaries rebuilt by insertion ([ds_trim]); that is the document itself exactly when it is
    outside the class. *)
Theorem C18_load_save_is_trim :
  forall L, l1_ok L -> forall d : doc L, ds_wf L d -> ds_decode L (ds_encode L d) = Some (ds_trim L d).
Proof. exact decode_encode_gen. Qed.
Theorem C18_class_exact :
  forall L, l1_ok L -> forall d : doc L, ds_wf L d ->
  (ds_decode L (ds_encode L d) = Some d <-> ~ KnownClass_C18 L d).
Proof. exact decode_encode_iff. Qed.

(** The written tree uses the designspace specification's element and attribute names: it is
    the tree of the writer transcribed from the specification, up to the order of attributes
    (which XML does not preserve). No hypothesis. *)
Theorem C18_spec_names :
  forall L (d : doc L), norm_node (ds_encode L d) = norm_node (spec_ds_write L d).
Proof. exact encode_is_spec. Qed.

(** What a conforming XML 1.0 reader finds in the file (only the mark-up characters are escaped
    by the writer): the written tree itself, exactly when no attribute value contains tab, LF
    or CR, no character data contains CR, and no string contains a character XML cannot carry. *)
Theorem C18_reader_sees_tree :
  forall L (d : doc L),
    reader_view (ds_encode L d) = Some (ds_encode L d) <-> node_unclean (ds_encode L d) = false.
Proof. exact reader_class_exact. Qed.

(** The class of strings the deserializer changes is exact. *)
Theorem C18_trim_changes_exactly_edge_ws : forall s, trim s = s <-> edge_ws s = false.
Proof.
  intros s. split; [|apply trim_id].
  intros H. destruct (edge_ws s) eqn:E; [|reflexivity]. now apply trim_changes in E.
Qed.

(** [IntWrapper] reads back every plist integer as printed. *)
Theorem C18_integers : forall z, int_ok z = true -> parse_int (print_int z) = Some z.
Proof. exact parse_print_int. Qed.

(** Non-vacuity: the L1 hypotheses are satisfiable; a document with a discrete hidden axis, a
    map, a rule with an empty condition set, an instance lib and every plist type is well-formed
    and outside the class (so the theorem applies to it), one blank more puts it into the class
    and the round trip then returns the trimmed document. *)
Example C18_hypotheses_satisfiable :
  l1_ok toy /\ ds_wf toy (toy_doc "a b") /\ ~ KnownClass_C18 toy (toy_doc "a b") /\
  ds_decode toy (ds_encode toy (toy_doc "a b")) = Some (toy_doc "a b").
Proof. exact (conj toy_ok (conj (toy_doc_wf "a b") (conj toy_doc_clean toy_doc_preserved))). Qed.
Example C18_class_witness :
  ds_wf toy (toy_doc " a") /\ KnownClass_C18 toy (toy_doc " a") /\
  ds_decode toy (ds_encode toy (toy_doc " a")) = Some (toy_doc "a").
Proof. exact (conj (toy_doc_wf " a") (conj toy_doc_in_class toy_doc_trimmed)). Qed.

(** The vocabulary table that is compared with the source on every run (Anchors/AnchorsOK_C18.v)
    is the vocabulary of the encoder: a document with every optional attribute and element kind
    is written with exactly the names of the table, and is read back. *)
Example C18_vocabulary_is_used :
  same_names (names_of_node (ds_encode toy full_doc)) vocab_names = true /\
  ds_decode toy (ds_encode toy full_doc) = Some full_doc.
Proof. exact (conj full_doc_uses_vocab full_doc_roundtrip). Qed.
